//! C18, type-level half: the auto-trait obligations a multi-threaded runtime
//! places on reval, for exactly the types and futures the statement names.
//! This crate compiles iff they all hold. One obligation per line, so that a
//! compiler error names the obligation that failed.
#![allow(dead_code)]

use reval::expr::{Expr, Index};
use reval::prelude::*;
use reval::Error;

fn assert_send<T: Send>() {}
fn assert_sync<T: Sync>() {}
fn assert_send_val<T: Send>(_: &T) {}

pub const OBLIGATIONS: usize = 17;

fn types() {
    assert_send::<RuleSet>(); // 1
    assert_sync::<RuleSet>(); // 2
    assert_send::<Rule>(); // 3
    assert_sync::<Rule>(); // 4
    assert_send::<Expr>(); // 5
    assert_sync::<Expr>(); // 6
    assert_send::<Index>(); // 7
    assert_sync::<Index>(); // 8
    assert_send::<Value>(); // 9
    assert_sync::<Value>(); // 10
    assert_send::<Symbols>(); // 11
    assert_sync::<Symbols>(); // 12
    assert_send::<Error>(); // 13
    assert_sync::<Error>(); // 14
}

fn expr_future(e: &Expr, facts: &Value) {
    assert_send_val(&e.evaluate(facts)); // 15
}

fn ruleset_value_future(rs: &RuleSet, facts: &Value) {
    assert_send_val(&rs.evaluate_value(facts)); // 16
}

/// "whenever the input is shareable": for every serialisable `T: Sync`
fn ruleset_typed_future<T: serde::Serialize + Sync>(rs: &RuleSet, facts: &T) {
    assert_send_val(&rs.evaluate(facts)); // 17
}

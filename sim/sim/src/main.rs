fn main() {
    std::process::exit(simcore::driver::main_with(&simcore::props::all()));
}

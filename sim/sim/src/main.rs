use simcore::driver::{main_with, PropDef, Record};
use simcore::prop::Verdict;

fn c05_def() -> PropDef {
    PropDef {
        id: "C05",
        generate: |seed, _| Record::Sim(simcore::c05::generate(seed)),
        check: |rec, c| match rec {
            Record::Sim(s) => simcore::c05::check(s, c),
            _ => Verdict::harness("wrong record kind".into()),
        },
        candidates: |rec| match rec {
            Record::Sim(s) => simcore::shrink::candidates(s).into_iter().map(Record::Sim).collect(),
            _ => vec![],
        },
        runs_quick: 400_000,
        runs_thorough: 40_000_000,
        level: "exploration",
        rule: "seeded type-directed expressions (<=3 rules, depth<=5, <=12 probes/rule) over all node kinds with call-logging non-cacheable probes and error leaves in every operand position, under seeded suspension schedules; a run is non-trivial when the order model took at least one lazy decision or error cut and at least one probe was invoked; distinct = distinct hashes of (tree shapes, decisions taken, outcome classes, suspension vector), counted as set bits of a 2^25-bit bitmap (a lower bound)",
        assumptions: &[
            "the value of a strict operator applied to already-evaluated constants is taken from reval itself (order, laziness and exactly-once are modelled independently)",
            "`x in y` is generated with at most one effectful operand; unknown functions get a constant argument (don't-care zones of the statement)",
            "sampled, bounded: depth<=5, <=30 nodes/rule, <=3 suspensions per call",
        ],
        real_components: &["RuleSet::evaluate_value", "Expr::eval_rec and all operator functions", "EvalContext", "UserFunctions::call", "Builder", "Rule::parse/lalrpop parser (text-built runs)", "async_trait/async_recursion futures"],
        stub_components: &["executor and wakers", "virtual clock", "user functions (ProbeFn scripts)", "input values"],
        expected_hits: &["hit.map_insertion_order_differs_from_key_order", "fault.fn_error", "fault.fn_suspend_selfwake", "fault.fn_suspend_deferred"],
    }
}

fn main() {
    let defs = vec![c05_def()];
    std::process::exit(main_with(&defs));
}

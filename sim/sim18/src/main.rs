//! C18, dynamic half: the C12 scenario on a lock-step pool of real OS threads.
//! The coordinator (driven by the record) decides which task is polled next
//! *and on which worker*; exactly one poll is in flight at any time, so a run
//! is a function of its record and replays, while pending evaluations
//! genuinely migrate between OS threads.

use simcore::driver::{main_with, PropDef, Record};
use simcore::exec::{build_ruleset, classify_panic, drive, install_panic_hook, make_input, task_future, Built, Host, Input, PollOut};
use simcore::prop::{Counters, Verdict};
use simcore::rng::{run_seed, Rng};
use simcore::spec::{Scenario, TaskSpec};
use simcore::summary::TaskResult;
use simcore::world::World;
use std::future::Future;
use std::panic::{catch_unwind, AssertUnwindSafe};
use std::pin::Pin;
use std::sync::mpsc::{channel, Receiver, Sender};
use std::sync::{Arc, Mutex, OnceLock};
use std::task::{Context, Poll, Waker};

type SendFut = Pin<Box<dyn Future<Output = TaskResult> + Send + 'static>>;

enum Job {
    Poll(SendFut, Waker),
    Drop(SendFut),
}
enum Done {
    Polled(Option<SendFut>, PollOut, std::thread::ThreadId),
    Dropped,
}

struct Worker {
    tx: Sender<Job>,
    rx: Receiver<Done>,
}

const MAX_WORKERS: usize = 4;

/// One pool per process, reused by every run of the slice.
fn pool() -> &'static Mutex<Vec<Worker>> {
    static POOL: OnceLock<Mutex<Vec<Worker>>> = OnceLock::new();
    POOL.get_or_init(|| {
        let mut ws = vec![];
        for i in 0..MAX_WORKERS {
            let (jtx, jrx) = channel::<Job>();
            let (dtx, drx) = channel::<Done>();
            std::thread::Builder::new()
                .name(format!("lockstep-worker-{i}"))
                .stack_size(32 << 20)
                .spawn(move || {
                    for job in jrx {
                        match job {
                            Job::Poll(mut fut, waker) => {
                                let mut cx = Context::from_waker(&waker);
                                let r = catch_unwind(AssertUnwindSafe(|| fut.as_mut().poll(&mut cx)));
                                let id = std::thread::current().id();
                                let done = match r {
                                    Ok(Poll::Pending) => Done::Polled(Some(fut), PollOut::Pending, id),
                                    Ok(Poll::Ready(v)) => {
                                        drop(fut);
                                        Done::Polled(None, PollOut::Ready(v), id)
                                    }
                                    Err(p) => {
                                        let out = classify_panic(p);
                                        let _ = catch_unwind(AssertUnwindSafe(move || drop(fut)));
                                        Done::Polled(None, out, id)
                                    }
                                };
                                if dtx.send(done).is_err() {
                                    return;
                                }
                            }
                            Job::Drop(fut) => {
                                // an abandoned evaluation is dropped on a worker too
                                let _ = catch_unwind(AssertUnwindSafe(move || drop(fut)));
                                if dtx.send(Done::Dropped).is_err() {
                                    return;
                                }
                            }
                        }
                    }
                })
                .expect("spawn worker");
            ws.push(Worker { tx: jtx, rx: drx });
        }
        Mutex::new(ws)
    })
}

struct PoolHost<'b> {
    built: &'b Built,
    futs: Vec<Option<SendFut>>,
    last_worker: Vec<usize>,
    threads_seen: Vec<std::thread::ThreadId>,
}

impl<'b> Host for PoolHost<'b> {
    fn spawn(&mut self, task: usize, spec: &TaskSpec, input: Arc<Input>) {
        // the `Send` bound here is the dynamic half's compile-time obligation
        let fut: SendFut = Box::pin(task_future(self.built, spec.entry, input));
        self.futs[task] = Some(fut);
    }
    fn poll(&mut self, task: usize, worker: usize, waker: &Waker) -> PollOut {
        let fut = self.futs[task].take().expect("polling a task without a future");
        let ws = pool().lock().unwrap();
        let w = &ws[worker % MAX_WORKERS];
        w.tx.send(Job::Poll(fut, waker.clone())).expect("worker alive");
        match w.rx.recv().expect("worker alive") {
            Done::Polled(back, out, id) => {
                self.futs[task] = back;
                self.last_worker[task] = worker;
                if !self.threads_seen.contains(&id) { self.threads_seen.push(id); }
                out
            }
            Done::Dropped => unreachable!(),
        }
    }
    fn drop_task(&mut self, task: usize) {
        if let Some(fut) = self.futs[task].take() {
            let ws = pool().lock().unwrap();
            // dropped on a worker other than the one that polled it last
            let w = &ws[(self.last_worker[task] + 1) % MAX_WORKERS];
            w.tx.send(Job::Drop(fut)).expect("worker alive");
            let _ = w.rx.recv();
        }
    }
}

fn generate(vs: u64, idx: u64, thorough: bool) -> Scenario {
    let mut scn = simcore::c12::generate(vs, idx, "C18", thorough);
    let mut rng = Rng::new(run_seed(vs, "C18-workers", idx));
    scn.exec.workers = 2 + rng.below(3) as u8;
    scn.exec.worker_picks = (0..1400).map(|_| rng.below(scn.exec.workers as u64) as u8).collect();
    scn
}

fn check(scn: &Scenario, c: &mut Counters) -> Verdict {
    install_panic_hook();
    let world = World::new(scn.functions.clone(), &scn.behaviour);
    let built = match build_ruleset(scn, &world) {
        Ok(b) => b,
        Err(e) => return Verdict::harness(e),
    };
    let mut inputs = vec![];
    for i in &scn.inputs {
        match make_input(i) {
            Ok(v) => inputs.push(Arc::new(v)),
            Err(e) => return Verdict::harness(e),
        }
    }
    let n = scn.tasks.len();
    let mut host = PoolHost { built: &built, futs: (0..n).map(|_| None).collect(), last_worker: vec![0; n], threads_seen: Default::default() };
    let out = drive(scn, &world, &mut host, &inputs);
    c.absorb_run(&out);
    c.add("pool.distinct_os_threads_in_run", host.threads_seen.len() as u64);
    if out.tstats.iter().any(|t| t.migrations > 0 && t.pendings > 0) {
        c.bump("hit.pending_evaluation_migrated_between_os_threads");
    }
    if out.tstats.iter().any(|t| t.workers_seen.len() >= 3) {
        c.bump("hit.evaluation_polled_on_three_or_more_threads");
    }
    // references are computed sequentially on this (the coordinator's) thread
    let mut v = simcore::c12::judge(scn, &out, c);
    if let Some(viol) = v.violation.as_mut() {
        viol.detail = format!("{} [lock-step pool: {} workers]", viol.detail, scn.exec.workers);
    }
    v
}

fn c18_def() -> PropDef {
    PropDef {
        id: "C18",
        generate: |vs, idx, tier| Record::Sim(generate(vs, idx, tier == simcore::driver::Tier::Thorough)),
        check: |rec, c| match rec {
            Record::Sim(s) => check(s, c),
            _ => Verdict::harness("wrong record kind".into()),
        },
        candidates: |rec, coarse| match rec {
            Record::Sim(s) => simcore::shrink::candidates_staged(s, coarse).into_iter().map(Record::Sim).collect(),
            _ => vec![],
        },
        runs_quick: 60_000,
        runs_thorough: 2_000_000,
        level: "exploration",
        rule: "the C12 workload (one shared ruleset object, 2-6 evaluations plus retries, suspensions, cancellation at suspension points, deadlines, panicking functions) executed on a lock-step pool of 2-4 real OS threads: the seeded coordinator decides which task is polled next and on which worker, ships the pending `dyn Future + Send` through a channel, the worker polls once and ships it back (abandoned evaluations are dropped on yet another worker); every finished evaluation must equal its reference computed sequentially on one thread. non-trivial = at least one interleave switch or abandonment; distinct = distinct (interleaving, abandonment points) hashes in a 2^25-bit bitmap. The type-level half (17 auto-trait obligations) is a separate crate compiled by the same check",
        assumptions: &[
            "lock-step execution explores task orderings at suspension points and thread migration between polls, not instruction-level overlap of two polls (Miri's many-seeds scheduler in the thorough tier covers that corner)",
            "rustc decides the Send/Sync obligations for every instantiation",
            "reference = the same evaluation alone on a fresh ruleset, on the coordinator thread",
        ],
        real_components: &["RuleSet::evaluate / evaluate_value, Expr::evaluate and everything below them", "real OS threads (std::thread) and channels for the worker pool", "rustc's auto-trait checker (static half)"],
        stub_components: &["scheduling decisions (which task, which worker, when) — seeded coordinator", "wakers, virtual clock", "user functions (ProbeFn scripts + fault plan)"],
        expected_hits: &[
            "fault.worker_migration",
            "hit.pending_evaluation_migrated_between_os_threads",
            "hit.evaluation_polled_on_three_or_more_threads",
            "fault.cancel_at_point",
            "fault.fn_panic",
            "fault.interleave_switch",
        ],
    }
}

fn main() {
    std::process::exit(main_with(&[c18_def()]));
}

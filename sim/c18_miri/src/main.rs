//! C18, data-race corner: N real threads evaluate one shared `Arc<RuleSet>`
//! concurrently under Miri's seeded scheduler and race detector
//! (-Zmiri-many-seeds, -Zmiri-preemption-rate). Each thread's outcomes must
//! equal the outcomes of running the same evaluations one after another.
//! A Miri seed is a replay handle of the same kind as VERIF_SEED.

use reval::prelude::*;
use std::collections::BTreeMap;
use std::future::Future;
use std::pin::pin;
use std::sync::atomic::{AtomicUsize, Ordering};
use std::sync::Arc;
use std::task::{Context, Poll, Waker};

struct Twice;
#[async_trait::async_trait]
impl UserFunction for Twice {
    async fn call(&self, param: Value) -> FunctionResult {
        YieldOnce(false).await;
        match param {
            Value::Int(i) => Ok(Value::Int(i * 2)),
            other => Ok(other),
        }
    }
    fn name(&self) -> &'static str {
        "twice"
    }
}

struct Counting(AtomicUsize);
#[async_trait::async_trait]
impl UserFunction for Counting {
    async fn call(&self, param: Value) -> FunctionResult {
        self.0.fetch_add(1, Ordering::SeqCst);
        if param == Value::Int(13) {
            anyhow::bail!("unlucky");
        }
        Ok(param)
    }
    fn name(&self) -> &'static str {
        "counting"
    }
    fn cacheable(&self) -> bool {
        false
    }
}

/// Cacheable, and stateful per argument: the n-th *invocation* for an argument returns n. Within one
/// evaluation every call with the same argument must therefore observe 1 on a fresh ruleset.
#[derive(Default)]
struct Ticket(std::sync::Mutex<BTreeMap<String, i128>>);
#[async_trait::async_trait]
impl UserFunction for Ticket {
    async fn call(&self, param: Value) -> FunctionResult {
        let mut m = self.0.lock().unwrap();
        let n = m.entry(format!("{param:?}")).or_insert(0);
        *n += 1;
        Ok(Value::Int(*n))
    }
    fn name(&self) -> &'static str {
        "ticket"
    }
}

/// Pending once (self-wake), then ready: forces a suspension inside evaluation.
struct YieldOnce(bool);
impl Future for YieldOnce {
    type Output = ();
    fn poll(mut self: std::pin::Pin<&mut Self>, cx: &mut Context<'_>) -> Poll<()> {
        if self.0 {
            Poll::Ready(())
        } else {
            self.0 = true;
            cx.waker().wake_by_ref();
            Poll::Pending
        }
    }
}

fn block_on<F: Future>(f: F) -> F::Output {
    let mut f = pin!(f);
    let mut cx = Context::from_waker(Waker::noop());
    loop {
        if let Poll::Ready(v) = f.as_mut().poll(&mut cx) {
            return v;
        }
        std::thread::yield_now();
    }
}

fn rule(name: &str, e: Expr) -> Rule {
    Rule::new(name, BTreeMap::new(), e)
}

fn summarise(rs: &RuleSet, facts: &Value) -> Vec<String> {
    block_on(rs.evaluate_value(facts))
        .unwrap()
        .into_iter()
        .map(|o| match o.value {
            Ok(v) => format!("{}={v:?}", o.rule.name()),
            Err(e) => format!("{}!{e}", o.rule.name()),
        })
        .collect()
}

fn main() {
    let rs = ruleset()
        .with_rule(rule("a", Expr::add(Expr::func("twice", Expr::reff("x")), Expr::symbol("k")))).unwrap()
        .with_rule(rule("b", Expr::iif(Expr::gt(Expr::reff("x"), Expr::value(2)), Expr::func("counting", Expr::reff("x")), Expr::func("twice", Expr::reff("x"))))).unwrap()
        .with_rule(rule("c", Expr::Vec(vec![Expr::func("twice", Expr::reff("x")), Expr::func("counting", Expr::value(13))]))).unwrap()
        .with_function(Twice).unwrap()
        .with_function(Counting(AtomicUsize::new(0))).unwrap()
        .with_symbol("k", Value::Int(100))
        .build();
    let rs = Arc::new(rs);
    let inputs: Vec<Value> = (1..=3)
        .map(|i| {
            let mut m = BTreeMap::new();
            m.insert("x".to_string(), Value::Int(i));
            Value::Map(m)
        })
        .collect();
    // one after another
    let sequential: Vec<Vec<String>> = inputs.iter().map(|f| summarise(&rs, f)).collect();
    // all at once
    let handles: Vec<_> = inputs
        .iter()
        .cloned()
        .map(|facts| {
            let rs = rs.clone();
            std::thread::spawn(move || {
                let first = summarise(&rs, &facts);
                let second = summarise(&rs, &facts);
                assert_eq!(first, second, "same evaluation twice on one thread differs");
                first
            })
        })
        .collect();
    let concurrent: Vec<Vec<String>> = handles.into_iter().map(|h| h.join().unwrap()).collect();
    assert_eq!(sequential, concurrent, "concurrent evaluations differ from sequential ones");

    // abandonment and migration under real concurrency: every thread starts an evaluation, polls it
    // once (it is pending inside a user function), then either drops it or hands the pending future
    // to another thread that finishes it, while a third party keeps evaluating the same ruleset
    let (tx, rx) = std::sync::mpsc::channel::<(usize, std::pin::Pin<Box<dyn Future<Output = Vec<String>> + Send>>)>();
    let starters: Vec<_> = inputs
        .iter()
        .cloned()
        .enumerate()
        .map(|(i, facts)| {
            let rs = rs.clone();
            let tx = tx.clone();
            std::thread::spawn(move || {
                let rs2 = rs.clone();
                let f2 = facts.clone();
                let mut fut: std::pin::Pin<Box<dyn Future<Output = Vec<String>> + Send>> = Box::pin(async move {
                    rs2.evaluate_value(&f2)
                        .await
                        .unwrap()
                        .into_iter()
                        .map(|o| match o.value {
                            Ok(v) => format!("{}={v:?}", o.rule.name()),
                            Err(e) => format!("{}!{e}", o.rule.name()),
                        })
                        .collect()
                });
                let mut cx = Context::from_waker(Waker::noop());
                assert!(fut.as_mut().poll(&mut cx).is_pending(), "first poll should suspend in `twice`");
                if i == 0 {
                    drop(fut); // abandoned midway
                } else {
                    tx.send((i, fut)).unwrap(); // finished elsewhere
                }
                summarise(&rs, &facts)
            })
        })
        .collect();
    drop(tx);
    let finisher = std::thread::spawn(move || {
        let mut out = vec![];
        for (i, fut) in rx {
            out.push((i, block_on(fut)));
        }
        out
    });
    let after: Vec<Vec<String>> = starters.into_iter().map(|h| h.join().unwrap()).collect();
    assert_eq!(sequential, after, "evaluations after an abandoned / migrated one differ");
    for (i, got) in finisher.join().unwrap() {
        assert_eq!(sequential[i], got, "evaluation finished on another thread differs");
    }
    // first use of a *fresh* ruleset from several threads at once (lazily initialised state inside the
    // ruleset must not make the first evaluations differ from later ones)
    let fresh = Arc::new(
        ruleset()
            .with_rule(rule("t", Expr::Vec(vec![Expr::func("ticket", Expr::reff("x")), Expr::func("ticket", Expr::reff("x")), Expr::func("ticket", Expr::reff("x"))]))).unwrap()
            .with_function(Ticket::default()).unwrap()
            .build(),
    );
    let hs: Vec<_> = inputs
        .iter()
        .cloned()
        .map(|facts| {
            let rs = fresh.clone();
            std::thread::spawn(move || summarise(&rs, &facts))
        })
        .collect();
    for h in hs {
        let got = h.join().unwrap();
        assert_eq!(got, vec!["t=Vec([Int(1), Int(1), Int(1)])".to_string()], "first concurrent use of a fresh ruleset differs from sequential use");
    }
    // a standalone expression evaluated concurrently as well
    let e = Arc::new(Expr::mult(Expr::reff("x"), Expr::value(3)));
    let hs: Vec<_> = inputs
        .iter()
        .cloned()
        .map(|facts| {
            let e = e.clone();
            std::thread::spawn(move || format!("{:?}", block_on(e.evaluate(&facts)).unwrap()))
        })
        .collect();
    let got: Vec<String> = hs.into_iter().map(|h| h.join().unwrap()).collect();
    assert_eq!(got, vec!["Int(3)", "Int(6)", "Int(9)"]);
    println!("c18_miri ok");
}

//! Batch driver: cuts the run-index space into fixed slices, executes each
//! slice sequentially in its own process, merges results in slice order (so
//! the output does not depend on how many slices ran at once), minimises and
//! re-confirms violations in a fresh process, and writes the evidence file.

use crate::prop::{Counters, Verdict, Violation};
use crate::rng::{mix64, run_seed};
use crate::spec::Scenario;
use serde::{Deserialize, Serialize};
use std::collections::BTreeMap;
use std::io::Write;
use std::path::{Path, PathBuf};
use std::process::{Command, Stdio};
use std::time::{Duration, Instant};

pub const NSLICES: u64 = 64;
pub const BITMAP_BITS: usize = 1 << 25;

#[derive(Clone, Copy, Debug, PartialEq, Eq)]
pub enum Tier {
    Quick,
    Thorough,
}

impl Tier {
    pub fn name(self) -> &'static str {
        match self {
            Tier::Quick => "quick",
            Tier::Thorough => "thorough",
        }
    }
    pub fn parse(s: &str) -> Tier {
        if s == "thorough" {
            Tier::Thorough
        } else {
            Tier::Quick
        }
    }
}

#[derive(Clone, Debug, Serialize, Deserialize)]
pub enum Record {
    Sim(Scenario),
    Builder(crate::c15::History),
}

pub struct PropDef {
    pub id: &'static str,
    /// (verif_seed, run index, tier) -> record
    pub generate: fn(u64, u64, Tier) -> Record,
    pub check: fn(&Record, &mut Counters) -> Verdict,
    /// (record, coarse_only) -> simplification candidates
    pub candidates: fn(&Record, bool) -> Vec<Record>,
    pub runs_quick: u64,
    pub runs_thorough: u64,
    pub level: &'static str,
    pub rule: &'static str,
    pub assumptions: &'static [&'static str],
    pub real_components: &'static [&'static str],
    pub stub_components: &'static [&'static str],
    /// reach probes that a thorough run is expected to hit (warning when zero)
    pub expected_hits: &'static [&'static str],
}

#[derive(Clone, Debug, Serialize, Deserialize)]
pub struct ReplayFile {
    pub format: u32,
    pub property: String,
    pub verif_seed: u64,
    pub run_index: u64,
    /// "run" (a single record) or "slice_prefix" (runs 0..=run_index of the slice, in one process)
    pub kind: String,
    pub clause: String,
    pub detail: String,
    pub minimised: bool,
    pub record: Option<Record>,
    pub tier: String,
}

#[derive(Serialize, Deserialize, Default)]
pub struct SliceResult {
    pub runs: u64,
    pub nontrivial: u64,
    pub skipped: u64,
    pub counters: Counters,
    pub samples: Vec<serde_json::Value>,
    pub violations: Vec<(u64, Record, Violation)>,
    pub harness_errors: Vec<(u64, String)>,
    pub log_digest: u64,
}

pub fn verif_dir() -> PathBuf {
    PathBuf::from(std::env::var("VERIF_DIR").unwrap_or_else(|_| "/verif".into()))
}

fn set_bit(bm: &mut [u8], h: u64) {
    let i = (mix64(h) as usize) & (BITMAP_BITS - 1);
    bm[i >> 3] |= 1 << (i & 7);
}

/// Run the indices of one slice sequentially. `upto`: stop after this index (inclusive).
pub fn run_slice(def: &PropDef, verif_seed: u64, slice: u64, total: u64, tier: Tier, upto: Option<u64>, bitmap: &mut [u8]) -> SliceResult {
    let mut res = SliceResult::default();
    let mut idx = slice;
    let mut digest = 0u64;
    while idx < total {
        let seed = run_seed(verif_seed, def.id, idx);
        let rec = (def.generate)(verif_seed, idx, tier);
        let v = (def.check)(&rec, &mut res.counters);
        res.runs += 1;
        digest = crate::rng::combine(digest, v.sig.unwrap_or(1) ^ (v.violation.is_some() as u64) << 7);
        if let Some(h) = v.harness_error {
            res.harness_errors.push((idx, h));
            if res.harness_errors.len() >= 3 {
                break;
            }
        } else if let Some(viol) = v.violation {
            res.violations.push((idx, rec, viol));
            if res.violations.len() >= 4 {
                break;
            }
        } else if v.skipped.is_some() {
            res.skipped += 1;
        } else if let Some(sig) = v.sig {
            res.nontrivial += 1;
            set_bit(bitmap, sig);
            if slice < 4 && res.samples.len() < 1 {
                res.samples.push(serde_json::json!({"run_index": idx, "run_seed": seed, "record": rec}));
            }
        }
        if upto == Some(idx) {
            break;
        }
        idx += NSLICES;
    }
    res.log_digest = digest;
    res
}

fn popcount(bm: &[u8]) -> u64 {
    bm.iter().map(|b| b.count_ones() as u64).sum()
}

struct Known {
    known: Vec<(String, String, String)>, // property, key, text
}

fn load_known() -> Known {
    let mut k = Known { known: vec![] };
    if let Ok(text) = std::fs::read_to_string(verif_dir().join("known_findings.txt")) {
        for line in text.lines() {
            let line = line.trim();
            if let Some(rest) = line.strip_prefix("known:") {
                // known: property=C15 key=<key> :: description
                let (head, desc) = rest.split_once("::").unwrap_or((rest, ""));
                let mut prop = String::new();
                let mut key = String::new();
                for tok in head.split_whitespace() {
                    if let Some(p) = tok.strip_prefix("property=") {
                        prop = p.to_string();
                    }
                    if let Some(p) = tok.strip_prefix("key=") {
                        key = p.to_string();
                    }
                }
                k.known.push((prop, key, desc.trim().to_string()));
            }
        }
    }
    k
}

/// A violation's identity for the known-findings file: the clause plus the
/// first line of the detail up to " | " (oracles put the failing input there).
pub fn finding_key(v: &Violation) -> String {
    let first = v.detail.lines().next().unwrap_or("");
    let first = first.split(" | ").next().unwrap_or("");
    format!("{}:{}", v.clause, first.replace(' ', "_"))
}

pub fn check_record(def: &PropDef, rec: &Record) -> Verdict {
    let mut c = Counters::default();
    (def.check)(rec, &mut c)
}

fn shrink_record(def: &PropDef, rec: Record, clause: &str, max_execs: usize) -> (Record, usize) {
    // bounded by executions *and* by wall clock (large scenarios are slow to re-execute); whatever
    // comes out is re-confirmed in a fresh process, so stopping early only costs minimality
    let t0 = Instant::now();
    let budget = Duration::from_secs(std::env::var("VERIF_SHRINK_SECS").ok().and_then(|s| s.parse().ok()).unwrap_or(40));
    let mut cur = rec;
    let mut execs = 0;
    let mut coarse = true;
    loop {
        let mut progressed = false;
        for cand in (def.candidates)(&cur, coarse) {
            if execs >= max_execs || t0.elapsed() > budget {
                return (cur, execs);
            }
            execs += 1;
            let v = check_record(def, &cand);
            if v.violation.as_ref().map(|x| x.clause.as_str()) == Some(clause) {
                cur = cand;
                progressed = true;
                break;
            }
        }
        if !progressed {
            if coarse {
                coarse = false; // structural removals exhausted: now simplify expressions and scripts
            } else {
                return (cur, execs);
            }
        }
    }
}

fn exe() -> PathBuf {
    std::env::current_exe().expect("current_exe")
}

/// Re-execute a replay file in a fresh process; returns the clause it failed with, if any.
fn replay_in_fresh_process(path: &Path) -> Result<Option<String>, String> {
    let out = Command::new(exe())
        .arg("replay")
        .arg(path)
        .stderr(Stdio::null())
        .output()
        .map_err(|e| format!("cannot spawn replay: {e}"))?;
    let text = String::from_utf8_lossy(&out.stdout).to_string();
    match out.status.code() {
        Some(0) => Ok(None),
        Some(1) => {
            let clause = text
                .lines()
                .find_map(|l| l.strip_prefix("REPLAY-CLAUSE: ").map(|s| s.to_string()))
                .unwrap_or_default();
            Ok(Some(clause))
        }
        other => Err(format!("replay process ended with {other:?}: {text}")),
    }
}

pub fn replay(defs: &[PropDef], path: &Path) -> i32 {
    let text = match std::fs::read_to_string(path) {
        Ok(t) => t,
        Err(e) => {
            eprintln!("cannot read {}: {e}", path.display());
            return 2;
        }
    };
    let rf: ReplayFile = match serde_json::from_str(&text) {
        Ok(r) => r,
        Err(e) => {
            eprintln!("malformed replay file: {e}");
            return 2;
        }
    };
    let Some(def) = defs.iter().find(|d| d.id == rf.property) else {
        eprintln!("unknown property {}", rf.property);
        return 2;
    };
    let verdict: Option<Violation> = if rf.kind == "slice_prefix" {
        let mut bm = vec![0u8; BITMAP_BITS / 8];
        let slice = rf.run_index % NSLICES;
        let r = run_slice(def, rf.verif_seed, slice, u64::MAX, Tier::parse(&rf.tier), Some(rf.run_index), &mut bm);
        if let Some((_, h)) = r.harness_errors.first() {
            eprintln!("harness error: {h}");
            return 2;
        }
        r.violations.into_iter().find(|(i, _, _)| *i == rf.run_index).map(|(_, _, v)| v)
    } else {
        let Some(rec) = &rf.record else {
            eprintln!("replay file without record");
            return 2;
        };
        let v = check_record(def, rec);
        if let Some(h) = v.harness_error {
            eprintln!("harness error: {h}");
            return 2;
        }
        v.violation
    };
    match verdict {
        Some(v) => {
            println!("REPLAY-CLAUSE: {}", v.clause);
            println!("REPLAY-DETAIL: {}", v.detail.replace('\n', "\n    "));
            println!("VIOLATION property={} replay={}", rf.property, path.display());
            1
        }
        None => {
            println!("replay of {} passes on this tree", path.display());
            0
        }
    }
}

pub fn slice_main(def: &PropDef, args: &[String]) -> i32 {
    // slice <seed> <slice> <total> <tier> <outdir>
    let seed: u64 = args[0].parse().unwrap();
    let slice: u64 = args[1].parse().unwrap();
    let total: u64 = args[2].parse().unwrap();
    let tier = Tier::parse(&args[3]);
    let outdir = PathBuf::from(&args[4]);
    let mut bm = vec![0u8; BITMAP_BITS / 8];
    let res = run_slice(def, seed, slice, total, tier, None, &mut bm);
    std::fs::write(outdir.join(format!("slice_{slice}.bm")), &bm).unwrap();
    std::fs::write(outdir.join(format!("slice_{slice}.json")), serde_json::to_vec(&res).unwrap()).unwrap();
    0
}

pub struct BatchOut {
    pub exit: i32,
}

pub fn check_main(def: &PropDef, tier: Tier) -> i32 {
    let t0 = Instant::now();
    let verif_seed: u64 = std::env::var("VERIF_SEED").ok().and_then(|s| s.parse().ok()).unwrap_or(1);
    let total: u64 = std::env::var("VERIF_RUNS")
        .ok()
        .and_then(|s| s.parse().ok())
        .unwrap_or(if tier == Tier::Thorough { def.runs_thorough } else { def.runs_quick });
    let jobs: usize = std::env::var("VERIF_JOBS").ok().and_then(|s| s.parse().ok()).unwrap_or(16);
    let watchdog = Duration::from_secs(if tier == Tier::Thorough { 3 * 3600 } else { 1500 });
    println!("[{}] tier={} VERIF_SEED={} runs={} slices={} jobs={}", def.id, tier.name(), verif_seed, total, NSLICES, jobs);

    let tmp = verif_dir().join("target").join("tmp").join(format!("{}-{}", def.id, std::process::id()));
    let _ = std::fs::remove_dir_all(&tmp);
    std::fs::create_dir_all(&tmp).expect("create tmp dir");

    // ---- run the slices, at most `jobs` processes at a time
    let mut pending: Vec<u64> = (0..NSLICES).rev().collect();
    let mut running: Vec<(u64, std::process::Child)> = vec![];
    let mut failed: Option<String> = None;
    while !pending.is_empty() || !running.is_empty() {
        while running.len() < jobs && !pending.is_empty() {
            let s = pending.pop().unwrap();
            let child = Command::new(exe())
                .args(["slice", def.id, &verif_seed.to_string(), &s.to_string(), &total.to_string(), tier.name()])
                .arg(&tmp)
                .stdout(Stdio::null())
                .spawn()
                .expect("spawn slice process");
            running.push((s, child));
        }
        let mut i = 0;
        let mut progressed = false;
        while i < running.len() {
            match running[i].1.try_wait() {
                Ok(Some(st)) => {
                    if !st.success() {
                        failed = Some(format!("slice {} process ended with {st}", running[i].0));
                    }
                    running.swap_remove(i);
                    progressed = true;
                }
                Ok(None) => i += 1,
                Err(e) => {
                    failed = Some(format!("wait failed: {e}"));
                    running.swap_remove(i);
                }
            }
        }
        if t0.elapsed() > watchdog {
            for (_, c) in running.iter_mut() {
                let _ = c.kill();
            }
            failed = Some("wall-clock watchdog expired (a hang inside a single poll?)".into());
            break;
        }
        if failed.is_some() {
            for (_, c) in running.iter_mut() {
                let _ = c.kill();
                let _ = c.wait();
            }
            break;
        }
        if !progressed {
            std::thread::sleep(Duration::from_millis(5));
        }
    }
    if let Some(f) = failed {
        eprintln!("HARNESS-ERROR: {f}");
        let _ = std::fs::remove_dir_all(&tmp);
        return 2;
    }

    // ---- merge in slice order
    let mut merged = vec![0u8; BITMAP_BITS / 8];
    let mut counters = Counters::default();
    let mut runs = 0;
    let mut nontrivial = 0;
    let mut skipped = 0;
    let mut samples = vec![];
    let mut violations: Vec<(u64, Record, Violation)> = vec![];
    let mut harness_errors = vec![];
    let mut digest = 0u64;
    for s in 0..NSLICES {
        let res: SliceResult = match std::fs::read(tmp.join(format!("slice_{s}.json"))).ok().and_then(|b| serde_json::from_slice(&b).ok()) {
            Some(r) => r,
            None => {
                eprintln!("HARNESS-ERROR: slice {s} produced no result");
                let _ = std::fs::remove_dir_all(&tmp);
                return 2;
            }
        };
        if let Ok(bm) = std::fs::read(tmp.join(format!("slice_{s}.bm"))) {
            for (a, b) in merged.iter_mut().zip(bm.iter()) {
                *a |= *b;
            }
        }
        let _ = std::fs::remove_file(tmp.join(format!("slice_{s}.bm")));
        runs += res.runs;
        nontrivial += res.nontrivial;
        skipped += res.skipped;
        counters.merge(&res.counters);
        samples.extend(res.samples);
        violations.extend(res.violations);
        harness_errors.extend(res.harness_errors);
        digest = crate::rng::combine(digest, res.log_digest);
    }
    let _ = std::fs::remove_dir_all(&tmp);
    let distinct = popcount(&merged);
    if let Some((idx, h)) = harness_errors.first() {
        eprintln!("HARNESS-ERROR: run {idx}: {h}");
        return 2;
    }

    // ---- violations: minimise, confirm in a fresh process, report
    violations.sort_by_key(|(i, _, _)| *i);
    let known = load_known();
    let replay_dir = verif_dir().join("replays").join(def.id);
    let mut reported = 0;
    let mut known_hit: BTreeMap<String, String> = BTreeMap::new();
    let mut seen_clauses: Vec<String> = vec![];
    let mut exit = 0;
    for (idx, rec, viol) in violations.iter() {
        let key = finding_key(viol);
        if let Some((_, _, text)) = known.known.iter().find(|(p, k, _)| p == def.id && *k == key) {
            known_hit.entry(key.clone()).or_insert_with(|| text.clone());
            continue;
        }
        // one report per oracle clause (the lowest run index that fails it), at most three clauses
        if seen_clauses.contains(&viol.clause) || reported >= 3 {
            continue;
        }
        seen_clauses.push(viol.clause.clone());
        std::fs::create_dir_all(&replay_dir).ok();
        let base = replay_dir.join(format!("{verif_seed}-{idx}"));
        let full = ReplayFile {
            format: 1,
            property: def.id.to_string(),
            verif_seed,
            run_index: *idx,
            kind: "run".into(),
            clause: viol.clause.clone(),
            detail: viol.detail.clone(),
            minimised: false,
            record: Some(rec.clone()),
            tier: tier.name().into(),
        };
        let full_path = base.with_extension("full.json");
        std::fs::write(&full_path, serde_json::to_vec_pretty(&full).unwrap()).ok();
        // does the single record reproduce in a fresh process?
        let single = replay_in_fresh_process(&full_path);
        let final_path = match single {
            Ok(Some(cl)) if cl == viol.clause => {
                let (min, execs) = shrink_record(def, rec.clone(), &viol.clause, 6000);
                let v = check_record(def, &min);
                let minfile = ReplayFile {
                    minimised: true,
                    detail: v.violation.as_ref().map(|x| x.detail.clone()).unwrap_or_default(),
                    record: Some(min),
                    ..full.clone()
                };
                let min_path = base.with_extension("min.json");
                std::fs::write(&min_path, serde_json::to_vec_pretty(&minfile).unwrap()).ok();
                match replay_in_fresh_process(&min_path) {
                    Ok(Some(cl2)) if cl2 == viol.clause => {
                        println!("minimised after {execs} re-executions; confirmed in a fresh process");
                        min_path
                    }
                    _ => full_path.clone(),
                }
            }
            Ok(_) => {
                // needs the runs before it (state survived an evaluation): slice prefix
                let pf = ReplayFile { kind: "slice_prefix".into(), record: None, ..full.clone() };
                let p = base.with_extension("prefix.json");
                std::fs::write(&p, serde_json::to_vec_pretty(&pf).unwrap()).ok();
                match replay_in_fresh_process(&p) {
                    Ok(Some(cl)) if cl == viol.clause => {
                        println!("note: run {idx} only fails after the earlier runs of its slice — state survives an evaluation");
                        p
                    }
                    other => {
                        eprintln!("HARNESS-ERROR: violation at run {idx} ({}) does not replay: {other:?}", viol.clause);
                        return 2;
                    }
                }
            }
            Err(e) => {
                eprintln!("HARNESS-ERROR: {e}");
                return 2;
            }
        };
        println!("clause: {}", viol.clause);
        let first = viol.detail.lines().next().unwrap_or("");
        let cut: String = first.chars().take(400).collect();
        println!("detail: {}{}", cut, if first.chars().count() > 400 { " …" } else { "" });
        println!("VIOLATION property={} replay={}", def.id, final_path.display());
        reported += 1;
        exit = 1;
    }
    for (key, text) in &known_hit {
        println!("KNOWN-FINDING: property={} {} [{}]", def.id, text, key);
    }

    // ---- evidence
    let wall = t0.elapsed().as_secs_f64();
    let faults: BTreeMap<&str, u64> = counters.0.iter().filter_map(|(k, v)| k.strip_prefix("fault.").map(|f| (f, *v))).collect();
    let hits: BTreeMap<&str, u64> = counters.0.iter().filter_map(|(k, v)| k.strip_prefix("hit.").map(|f| (f, *v))).collect();
    let cov: BTreeMap<&str, u64> = counters.0.iter().filter_map(|(k, v)| k.strip_prefix("cov.").map(|f| (f, *v))).collect();
    let other: BTreeMap<&str, u64> = counters
        .0
        .iter()
        .filter(|(k, _)| !k.starts_with("fault.") && !k.starts_with("hit.") && !k.starts_with("cov."))
        .map(|(k, v)| (k.as_str(), *v))
        .collect();
    let mut zero_hits = vec![];
    for h in def.expected_hits {
        if counters.get(h) == 0 {
            zero_hits.push(*h);
        }
    }
    if !zero_hits.is_empty() {
        println!("warning: reach probes stuck at zero: {zero_hits:?}");
    }
    samples.truncate(3);
    let evidence = serde_json::json!({
        "property_id": def.id,
        "tier": tier.name(),
        "seed": verif_seed,
        "level": def.level,
        "wall_s": wall,
        "violations": violations.len(),
        "coverage": {
            "evaluations": runs,
            "distinct_nontrivial": distinct,
            "rule": def.rule,
            "samples": samples,
            "nontrivial_runs": nontrivial,
            "not_judged_runs": skipped,
            "run_index_range": [0, total],
            "slices": NSLICES,
            "runs_per_hour": (runs as f64 / wall.max(0.001) * 3600.0) as u64,
            "polls_per_hour": (counters.get("exec.polls") as f64 / wall.max(0.001) * 3600.0) as u64,
            "simulated_time_s": counters.get("exec.vtime_ns") as f64 / 1e9,
            "faults_injected": faults,
            "reach_probes": hits,
            "reach_probes_at_zero": zero_hits,
            "operand_position_table": cov,
            "counters": other,
            "components_real": def.real_components,
            "components_stub": def.stub_components,
            "history_digest": format!("{digest:016x}"),
            "known_findings_seen": known_hit.keys().collect::<Vec<_>>(),
        },
        "assumptions": def.assumptions,
    });
    // mutant / self-test runs must not overwrite the evidence of the real tree
    let evdir = std::env::var("VERIF_EVIDENCE_DIR").map(PathBuf::from).unwrap_or_else(|_| verif_dir().join("evidence"));
    std::fs::create_dir_all(&evdir).ok();
    let mut f = std::fs::File::create(evdir.join(format!("{}.json", def.id))).expect("evidence file");
    f.write_all(serde_json::to_string_pretty(&evidence).unwrap().as_bytes()).ok();
    println!(
        "[{}] runs={} nontrivial={} distinct={} not_judged={} violations={} wall={:.1}s digest={:016x}",
        def.id,
        runs,
        nontrivial,
        distinct,
        skipped,
        violations.len(),
        wall,
        digest
    );
    exit
}

pub fn main_with(defs: &[PropDef]) -> i32 {
    let args: Vec<String> = std::env::args().skip(1).collect();
    if args.is_empty() {
        eprintln!("usage: check <ID> [quick|thorough] | slice … | replay <file> | gen <ID> <index>");
        return 2;
    }
    let find = |id: &str| defs.iter().find(|d| d.id == id);
    match args[0].as_str() {
        "check" => {
            let Some(def) = args.get(1).and_then(|i| find(i)) else {
                eprintln!("unknown property");
                return 2;
            };
            let tier = args.get(2).map(|s| Tier::parse(s)).unwrap_or(Tier::Quick);
            check_main(def, tier)
        }
        "slice" => {
            let Some(def) = args.get(1).and_then(|i| find(i)) else { return 2 };
            slice_main(def, &args[2..])
        }
        "replay" => replay(defs, Path::new(&args[1])),
        "gen" => {
            let Some(def) = args.get(1).and_then(|i| find(i)) else { return 2 };
            let idx: u64 = args.get(2).and_then(|s| s.parse().ok()).unwrap_or(0);
            let seed: u64 = std::env::var("VERIF_SEED").ok().and_then(|s| s.parse().ok()).unwrap_or(1);
            let rec = (def.generate)(seed, idx, Tier::Quick);
            println!("{}", serde_json::to_string_pretty(&rec).unwrap());
            let mut c = Counters::default();
            let v = (def.check)(&rec, &mut c);
            println!("{v:?}");
            0
        }
        "digest" => {
            // digest <ID> <slice> <total>: event-level determinism probe
            let Some(def) = args.get(1).and_then(|i| find(i)) else { return 2 };
            let slice: u64 = args[2].parse().unwrap();
            let total: u64 = args[3].parse().unwrap();
            let seed: u64 = std::env::var("VERIF_SEED").ok().and_then(|s| s.parse().ok()).unwrap_or(1);
            let mut bm = vec![0u8; BITMAP_BITS / 8];
            let r = run_slice(def, seed, slice, total, Tier::Quick, None, &mut bm);
            println!("{:016x} runs={} counters={}", r.log_digest, r.runs, serde_json::to_string(&r.counters).unwrap());
            0
        }
        other => {
            eprintln!("unknown command {other}");
            2
        }
    }
}

//! C12 — evaluation is deterministic, free of side effects and independent of
//! the poll schedule, of interleaved evaluations and of earlier evaluations
//! having completed, failed or been dropped midway. Differential: every task
//! of a perturbed execution must equal its solo zero-suspension reference.

use crate::c05::{random_behaviour, random_picks, standard_input, standard_symbols};
use crate::exec::{make_input, run_with, Input, RunOut, TaskEnd};
use crate::gen::{ty_of, Gen, GenCfg, ALL_TYS};
use crate::prop::{Counters, Verdict};
use crate::rng::{combine, run_seed, Rng};
use crate::spec::*;
use crate::summary::TaskResult;
use crate::world::Ev;
use crate::xexpr::X;
use crate::xv::{canon, XV};
use std::sync::Arc;

pub fn generate(verif_seed: u64, idx: u64, property: &str, thorough: bool) -> Scenario {
    // 8 consecutive indices share a base scenario and move the abandonment
    // point of the victim task through suspension points 0..7
    // (thorough tier: 32 consecutive indices, suspension points 0..31)
    let bits = if thorough { 5 } else { 3 };
    let family = idx >> bits;
    let cancel_point = (idx & ((1 << bits) - 1)) as u32;
    let seed = run_seed(verif_seed, property, family);
    let mut rng = Rng::new(seed);
    let mut scn = Scenario::new(property);
    let (input0, refs) = standard_input(&mut rng);
    scn.symbols = standard_symbols(&mut rng);
    let syms: Vec<(String, Ty)> = scn.symbols.iter().map(|(k, v)| (k.clone(), ty_of(v))).collect();
    let mut cfg = GenCfg::swarm(&mut rng);
    cfg.p_repeat_site = *rng.pick(&[100, 300, 600]);
    cfg.p_probe_leaf = *rng.pick(&[350, 600, 850]);
    cfg.p_err_leaf = *rng.pick(&[0, 20, 60]);
    cfg.p_fail_site = *rng.pick(&[0, 30, 100]);
    cfg.max_probes = 8;
    cfg.max_depth = cfg.max_depth.min(4);
    // towers of nested unary operators around a call: deep evaluations suspended side by side
    if rng.chance(1, 12) {
        cfg.p_tower = 300;
        cfg.max_tower = if thorough { 900 } else { 320 };
    }
    scn.text_build = rng.chance(1, 16);
    let nrules = 1 + rng.usize(4);
    let names = crate::c05::rule_names(&mut rng, nrules);
    let mut grng = rng.fork();
    let mut g = Gen::new(&mut grng, cfg, refs, syms.clone());
    for i in 0..nrules {
        g.nodes = 0;
        g.probes = 0;
        let ty = *g.rng.pick(&ALL_TYS);
        let d = g.cfg.max_depth;
        let expr = g.gen(ty, d);
        scn.rules.push(RuleSpec { name: names[i].clone(), expr });
    }
    // volume (thorough tier only, rare): one rule making tens of thousands of calls with distinct
    // arguments — per-ruleset counters, budgets, intern tables and bounded caches only show at volume
    let volume = thorough && rng.chance(1, 1500);
    if volume {
        // half of the volume runs cross 2^16
        let n = if rng.chance(1, 2) { 66_000 + rng.below(10_000) as u32 } else { 1000 + rng.below(75_000) as u32 };
        let f = crate::gen::fn_for(*rng.pick(&[Ty::Int, Ty::Str, Ty::Bool]));
        scn.rules.push(RuleSpec { name: "volume".into(), expr: X::ManyCalls(f.to_string(), 1_000_000, n) });
    }
    // the symbol table read back through a rule: compared with the reference like everything else
    scn.rules.push(RuleSpec { name: "symtab".into(), expr: X::Vec(syms.iter().map(|(n, _)| X::Sym(n.clone())).collect()) });
    let cache_mask = g.rng.next_u64();
    let cacheable = move |t: Ty| (cache_mask >> (t as u32)) & 1 == 1;
    scn.functions = g.functions(&cacheable, true, true, seed);

    // inputs: the standard map, a variant of it, and typed entries
    scn.inputs.push(InputSpec::Val(input0.clone()));
    if let XV::M(fields) = &input0 {
        let mut f2 = fields.clone();
        for (k, v) in f2.iter_mut() {
            if k == "x" {
                *v = XV::I(rng.range(0, 9));
            }
            if k == "flag" {
                *v = XV::B(rng.chance(1, 2));
            }
        }
        scn.inputs.push(InputSpec::Val(XV::M(f2)));
    }
    scn.inputs.push(InputSpec::Json("{\"x\":3,\"y\":4,\"flag\":true,\"name\":\"bob\",\"lst\":[1,2],\"mp\":{\"a\":1},\"nil\":null}".into()));
    // an input that cannot be serialised: the call fails as a whole ("earlier evaluations having failed")
    scn.inputs.push(InputSpec::IntKeyMap(vec![(1, 2)]));

    // tasks
    let ntasks = 2 + rng.usize(4);
    for t in 0..ntasks {
        let entry = if rng.chance(1, 10) { Entry::ExprOnly(rng.usize(nrules)) } else { Entry::RuleSet };
        let input = match rng.below(12) {
            0 | 1 => 1,
            2 | 3 => 2,
            4 => 3,
            _ => 0,
        };
        let start = match rng.below(4) {
            0 if t > 0 => Start::AfterEnd(rng.usize(t)),
            1 => Start::AtStep(rng.below(12) as u32),
            _ => Start::Now,
        };
        scn.tasks.push(TaskSpec { tag: t as u32, entry, input, start });
    }
    // per-tag failures: the same call fails in one evaluation and not in another
    if rng.chance(1, 3) {
        let fi = rng.usize(scn.functions.len());
        let tag = rng.below(ntasks as u64) as u32;
        scn.functions[fi].rows.insert(0, ScriptRow { key: None, tag: Some(tag), ordinal: Some(0), out: ScriptOut::Fail(format!("tagged failure in evaluation {tag}")) });
    }
    let p_susp = if volume { 300 } else { *rng.pick(&[300, 600, 900, 1000]) };
    for t in 0..ntasks {
        scn.behaviour.extend(random_behaviour(&mut rng, t, 40, p_susp, 3));
    }
    if volume {
        // the first evaluation parks for a very long virtual time early on: others start, run their
        // volume and finish while it still holds whatever it acquired before
        scn.behaviour.retain(|b| !(b.task == 0 && b.call <= 2));
        scn.behaviour.push(Beh { task: 0, call: rng.below(3) as u32, susp: vec![Susp::Deferred(3_600_000_000_000)], panic: false });
        // a few suspensions deep inside the volume rule as well, so that evaluations overlap there
        for t in 0..ntasks {
            for _ in 0..6 {
                scn.behaviour.push(Beh { task: t, call: rng.below(70_000) as u32, susp: vec![Susp::SelfWake, Susp::Deferred(2_000_000)], panic: false });
            }
        }
    }
    // abandonment: one victim, by cancellation point, deadline or a panicking function; then its retry
    let victim = rng.usize(ntasks);
    let how = rng.below(10);
    let mut abandoned = true;
    if how < 5 {
        scn.faults.push(Fault::CancelAfterPending { task: victim, k: cancel_point });
    } else if how < 7 {
        scn.faults.push(Fault::Deadline { task: victim, after: rng.below(120) * 1_000_000 });
    } else if how < 8 {
        let call = rng.below(3) as u32;
        scn.behaviour.retain(|b| !(b.task == victim && b.call == call));
        let susp = if rng.chance(1, 2) { vec![Susp::SelfWake] } else { vec![] };
        scn.behaviour.push(Beh { task: victim, call, susp, panic: true });
    } else if how < 9 {
        // the victim hangs for good in one of its first calls (no cancellation): hung I/O in one
        // evaluation must not keep the others from finishing
        let call = rng.below(3) as u32;
        scn.behaviour.retain(|b| !(b.task == victim && b.call == call));
        scn.behaviour.push(Beh { task: victim, call, susp: vec![Susp::Forever], panic: false });
        // nothing may be made to wait for the hung one
        for t in scn.tasks.iter_mut() {
            if t.start == Start::AfterEnd(victim) {
                t.start = Start::Now;
            }
        }
        abandoned = false;
    } else {
        abandoned = false;
    }
    if abandoned {
        let v = scn.tasks[victim].clone();
        scn.tasks.push(TaskSpec { tag: v.tag, entry: v.entry, input: v.input, start: Start::AfterEnd(victim) });
        let t = scn.tasks.len() - 1;
        scn.behaviour.extend(random_behaviour(&mut rng, t, 40, p_susp / 2, 2));
        if rng.chance(1, 4) {
            // a second victim among the others, dropped before its first poll or early
            let v2 = rng.usize(ntasks);
            if v2 != victim {
                scn.faults.push(Fault::CancelAfterPending { task: v2, k: rng.below(3) as u32 });
            }
        }
    }
    // abandonment storm: many evaluations of the same ruleset object dropped midway, one after
    // another or at once, before a final one runs — state that leaks a little per abandoned
    // evaluation (a slot, a counter, a lock) only shows after enough of them
    if !volume && rng.chance(1, 6) {
        // sizes are log-uniform: most storms are small, a few are very large (thorough: up to ~6000)
        let max_log = if !thorough { 7.3 } else if rng.chance(1, 10) { 12.6 } else { 9.0 };
        let n = (2.0f64.powf(2.0 + (rng.below(1000) as f64 / 1000.0) * (max_log - 2.0))) as usize;
        let chained = rng.chance(2, 3);
        let storm_kind = *rng.pick(&[0u64, 0, 0, 1, 2, 3, 4, 5, 5]);
        let first = scn.tasks.len();
        let input = rng.usize(2);
        for i in 0..n {
            let t = scn.tasks.len();
            let start = if chained && i > 0 { Start::AfterEnd(t - 1) } else if chained { Start::Now } else { Start::AtStep(rng.below(20) as u32) };
            // each storm member ends in one of the ways the statement lists: dropped midway
            // (cancel / deadline / unwinding), failed as a whole, or completed
            let kind = if storm_kind == 5 { rng.below(5) } else { storm_kind };
            let inp = if kind == 3 { 3 } else { input };
            scn.tasks.push(TaskSpec { tag: 100 + i as u32, entry: Entry::RuleSet, input: inp, start });
            // make sure the first call suspends
            let panic = kind == 2;
            scn.behaviour.push(Beh { task: t, call: 0, susp: vec![Susp::SelfWake, Susp::Deferred(1_000_000), Susp::SelfWake], panic });
            match kind {
                0 => scn.faults.push(Fault::CancelAfterPending { task: t, k: 1 + rng.below(3) as u32 }),
                1 => scn.faults.push(Fault::Deadline { task: t, after: rng.below(3) * 1_000_000 }),
                _ => {} // 2: dies by unwinding; 3: unserialisable input; 4: runs to completion
            }
        }
        let last = scn.tasks.len() - 1;
        for j in 0..2 {
            scn.tasks.push(TaskSpec { tag: 90 + j, entry: Entry::RuleSet, input, start: Start::AfterEnd(if chained { last } else { first + rng.usize(n) }) });
        }
    }
    let total = scn.tasks.len();
    let (p_spur, p_adv) = match rng.below(5) {
        0 => (0, 50),      // wake-driven
        1 => (150, 100),   // wake-driven + spurious polls
        2 => (1000, 150),  // busy
        3 => (0, 300),     // slow executor: clock runs ahead of runnable tasks
        _ => (50, 50),
    };
    let p_adv = if volume { 0 } else { p_adv };
    scn.picks = random_picks(&mut rng, 200 + 4 * total.min(500), total, p_spur, p_adv);
    if rng.chance(1, 4) {
        // priority schedules: one evaluation runs as far as it can while the others stay parked
        crate::c05::random_priorities(&mut rng, total, &mut scn.exec);
    }
    scn.exec.fresh_waker = rng.chance(1, 4);
    scn.exec.max_steps = 3000 + 40 * total as u32 + if volume { 600_000 } else { 0 };
    scn
}

fn reference(scn: &Scenario, task: usize, c: &mut Counters) -> Result<(TaskEnd, Vec<String>), String> {
    let solo = scn.solo(task);
    let o = run_with(&solo, None)?;
    c.add("exec.reference_executions", 1);
    Ok((o.ends[0].clone(), invocation_log(&o, 0)))
}

fn invocation_log(out: &RunOut, task: usize) -> Vec<String> {
    out.log
        .iter()
        .filter_map(|e| match e {
            Ev::Invoke { task: t, f, arg, .. } if *t == task => Some(format!("{f}({arg})")),
            Ev::Return { task: t, ok, val, .. } if *t == task => Some(format!("-> {}{val}", if *ok { "" } else { "ERR " })),
            _ => None,
        })
        .collect()
}

fn input_fingerprint(i: &Input) -> String {
    match i {
        Input::Val(v) => canon(v),
        Input::Json(j) => j.to_string(),
        Input::Struct(s) => serde_json::to_string(s).unwrap_or_default(),
        Input::Enum(e) => serde_json::to_string(e).unwrap_or_default(),
        Input::IntKeyMap(m) => format!("{m:?}"),
        Input::NestedBadKey(m) => format!("{m:?}"),
        Input::Unit => "()".into(),
        Input::StrKeyMap(m) => format!("{m:?}"),
        Input::Chain(c) => format!("chain:{}", c.v),
        Input::Typed(_) => "typed".into(),
    }
}

/// The differential oracle, shared with C18 (which runs the perturbed
/// execution on a pool of OS threads): `perturbed` is the outcome of the
/// scenario under its schedule and faults.
pub fn judge(scn: &Scenario, out: &RunOut, c: &mut Counters) -> Verdict {
    let mut sig = 0u64;
    for (i, t) in out.poll_trace.iter().enumerate() {
        if i == 0 || out.poll_trace[i - 1] != *t {
            sig = combine(sig, *t as u64 + 1);
        }
    }
    // ---- liveness
    if let Some(t) = out.lost_wakeup {
        return Verdict::violation(
            "lost-wakeup",
            format!("evaluation {t} (tag {}) is pending, every wake it was promised has fired, and nothing will ever poll it again", scn.tasks[t].tag),
        );
    }
    if out.budget_exhausted {
        let stuck: Vec<usize> = out.ends.iter().enumerate().filter(|(_, e)| matches!(e, TaskEnd::Unfinished(_))).map(|(i, _)| i).collect();
        return Verdict::violation(
            "no-progress-within-bound",
            format!("evaluations {stuck:?} still pending after {} steps ({} polls) although every suspension was finite", out.stats.steps, out.stats.polls),
        );
    }
    let mut refs: Vec<Option<(TaskEnd, Vec<String>)>> = vec![None; scn.tasks.len()];
    let mut abandoned_before = false;
    let mut any_abandoned = false;
    for (t, end) in out.ends.iter().enumerate() {
        match end {
            TaskEnd::Finished(res) => {
                // reference: fresh ruleset, this task alone, zero suspensions — twice
                let r1 = match reference(scn, t, c) {
                    Ok(r) => r,
                    Err(e) => return Verdict::harness(e),
                };
                let r2 = match reference(scn, t, c) {
                    Ok(r) => r,
                    Err(e) => return Verdict::harness(e),
                };
                if r1.0 != r2.0 {
                    return Verdict::violation(
                        "same-evaluation-twice-differs",
                        format!("evaluation {t} run alone twice on fresh rulesets | first {:?} second {:?}", r1.0, r2.0),
                    );
                }
                let want = match &r1.0 {
                    TaskEnd::Finished(w) => w,
                    TaskEnd::ForeignPanic(m) => {
                        c.bump("skipped.reference_panics");
                        return Verdict::skip(format!("reference evaluation panics: {m}"));
                    }
                    other => return Verdict::harness(format!("reference of task {t} ended as {other:?}")),
                };
                if res != want {
                    let got_log = invocation_log(out, t);
                    let retry = matches!(scn.tasks[t].start, Start::AfterEnd(o) if !matches!(out.ends[o], TaskEnd::Finished(_)) && scn.tasks[o].tag == scn.tasks[t].tag);
                    let clause = if retry {
                        "retry-after-abandon-differs"
                    } else if abandoned_before {
                        "differs-after-earlier-abandonment"
                    } else {
                        "task-differs-from-reference"
                    };
                    let first = first_difference(res, want);
                    return Verdict::violation(
                        clause,
                        format!(
                            "evaluation {t} (tag {}) under schedule/faults differs from the same evaluation alone | {first}\ninvocations observed: {got_log:?}\ninvocations in reference: {:?}",
                            scn.tasks[t].tag, r1.1
                        ),
                    );
                }
                if let TaskResult::Outcomes(os) = res {
                    if os.iter().enumerate().any(|(i, o)| o.rule_index != Some(i)) {
                        // position/identity is C09's; "rules unchanged" only needs each to equal *a* scenario rule
                        if os.iter().any(|o| o.rule_index.is_none()) {
                            return Verdict::violation("rule-changed", format!("evaluation {t} returned a rule that equals none of the rules the ruleset was built from"));
                        }
                    }
                }
                if abandoned_before {
                    c.bump("hit.finished_after_an_earlier_abandonment");
                }
                refs[t] = Some(r1);
            }
            TaskEnd::Cancelled { after_pendings } => {
                any_abandoned = true;
                abandoned_before = true;
                c.bump(&format!("hit.cancelled_at_suspension_point.{}", after_pendings.min(&8)));
                sig = combine(sig, 0xC0 + *after_pendings as u64 + 16 * t as u64);
            }
            TaskEnd::DeadlineHit => {
                any_abandoned = true;
                abandoned_before = true;
                sig = combine(sig, 0xD0 + t as u64);
            }
            TaskEnd::ProbePanicked => {
                any_abandoned = true;
                abandoned_before = true;
                c.bump("hit.evaluation_died_by_unwinding");
                sig = combine(sig, 0xE0 + t as u64);
            }
            TaskEnd::ForeignPanic(m) => {
                // is it the schedule's doing? compare with the reference
                match reference(scn, t, c) {
                    Ok((TaskEnd::ForeignPanic(_), _)) => {
                        c.bump("skipped.reference_panics");
                        return Verdict::skip(format!("evaluation panics even alone: {m}"));
                    }
                    Ok(_) => {
                        return Verdict::violation(
                            "panic-under-schedule",
                            format!("evaluation {t} panicked under schedule/faults ({m}) | alone it does not"),
                        )
                    }
                    Err(e) => return Verdict::harness(e),
                }
            }
            TaskEnd::NotStarted => {}
            TaskEnd::Unfinished(why) if why == "hung by plan" => {
                // parked in a call that never completes; everybody else had to finish regardless
                any_abandoned = true;
                c.bump("hit.evaluation_hung_in_a_call_while_others_finished");
                sig = combine(sig, 0xF0 + t as u64);
            }
            TaskEnd::Unfinished(why) => return Verdict::harness(format!("task {t} unfinished: {why}")),
        }
    }
    if any_abandoned {
        sig = combine(sig, 0xAB);
    }
    let n_failed_calls = out.ends.iter().filter(|e| matches!(e, TaskEnd::Finished(TaskResult::CallErr(_)))).count();
    if n_failed_calls >= 4 {
        c.bump("hit.four_or_more_evaluations_failed_as_a_whole_on_one_ruleset");
    }
    let n_panicked = out.ends.iter().filter(|e| matches!(e, TaskEnd::ProbePanicked)).count();
    if n_panicked >= 4 {
        c.bump("hit.four_or_more_evaluations_died_by_unwinding_on_one_ruleset");
    }
    let n_abandoned = out.ends.iter().filter(|e| matches!(e, TaskEnd::Cancelled { .. } | TaskEnd::DeadlineHit | TaskEnd::ProbePanicked)).count();
    if n_abandoned >= 16 {
        c.bump("hit.sixteen_or_more_evaluations_abandoned_on_one_ruleset");
    }
    if n_abandoned >= 64 {
        c.bump("hit.sixtyfour_or_more_evaluations_abandoned_on_one_ruleset");
    }
    if n_abandoned >= 4096 {
        c.bump("hit.4096_or_more_evaluations_abandoned_on_one_ruleset");
    }
    if out.wstats.invocations >= 65_536 {
        c.bump("hit.65536_or_more_invocations_in_one_run");
    }
    fn tower_height(x: &X) -> u32 {
        let own = if let X::Tower(_, n, _) = x { *n } else { 0 };
        own + x.children().into_iter().map(tower_height).max().unwrap_or(0)
    }
    if out.stats.interleave_switch > 0 && scn.rules.iter().any(|r| tower_height(&r.expr) > 250) {
        c.bump("hit.interleaved_evaluations_nested_deeper_than_250");
    }
    let concurrent = out.stats.interleave_switch > 0;
    Verdict::pass(if concurrent || any_abandoned { Some(sig) } else { None })
}

fn first_difference(got: &TaskResult, want: &TaskResult) -> String {
    match (got, want) {
        (TaskResult::Outcomes(a), TaskResult::Outcomes(b)) => {
            if a.len() != b.len() {
                return format!("{} outcomes, reference has {}", a.len(), b.len());
            }
            for (i, (x, y)) in a.iter().zip(b.iter()).enumerate() {
                if x != y {
                    return format!("outcome {i} ({}): {:?}, reference {:?}", y.rule_name, x.value, y.value);
                }
            }
            "equal?".into()
        }
        (a, b) => format!("{a:?}, reference {b:?}"),
    }
}

pub fn check(scn: &Scenario, c: &mut Counters) -> Verdict {
    let mut inputs = Vec::new();
    for i in &scn.inputs {
        match make_input(i) {
            Ok(v) => inputs.push(Arc::new(v)),
            Err(e) => return Verdict::harness(e),
        }
    }
    let before: Vec<String> = inputs.iter().map(|i| input_fingerprint(i)).collect();
    let out = match run_with(scn, Some(inputs.clone())) {
        Ok(o) => o,
        Err(e) => return Verdict::harness(e),
    };
    c.absorb_run(&out);
    let after: Vec<String> = inputs.iter().map(|i| input_fingerprint(i)).collect();
    if before != after {
        return Verdict::violation("input-changed", format!("an input was modified by evaluation | before {before:?} after {after:?}"));
    }
    judge(scn, &out, c)
}

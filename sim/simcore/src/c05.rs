//! C05 — lazy conditionals/logic; everything else once, left to right.
//! Workload generator, independent evaluation-*order* reference model, oracle.

use crate::exec::{run, TaskEnd};
use crate::gen::{Gen, GenCfg, ALL_TYS};
use crate::prop::{Counters, Verdict};
use crate::rng::{combine, hash_str, Rng};
use crate::spec::*;
use crate::summary::{err_sum, ErrSum, Res, TaskResult};
use crate::world::{resolve, Ev};
use crate::xexpr::{bin_expr, un_expr, BinOp, XIdx, X};
use crate::xv::{canon, XV};
use reval::expr::{Expr, Index};
use reval::value::Value;
use std::collections::{BTreeMap, HashMap};
use std::future::Future;
use std::task::{Context, Poll, Waker};

// ------------------------------------------------------------ the workload

pub fn standard_input(rng: &mut Rng) -> (XV, Vec<(String, Ty)>) {
    let mut fields: Vec<(String, XV)> = vec![
        ("x".into(), XV::I(rng.range(0, 9))),
        ("y".into(), XV::I(rng.range(0, 9))),
        ("flag".into(), XV::B(rng.chance(1, 2))),
        ("name".into(), XV::s(rng.pick::<&str>(&["bob", "Eve", ""]))),
        ("ratio".into(), XV::F(rng.range(0, 8) as f64 * 0.5)),
        ("price".into(), XV::D(rng.range(0, 99), 1)),
        ("at".into(), XV::T(1_600_000_000 + rng.range(0, 100_000))),
        ("span".into(), XV::U(rng.range(0, 10_000))),
        ("lst".into(), XV::V(vec![XV::I(1), XV::I(rng.range(0, 4))])),
        ("mp".into(), XV::M(vec![("a".into(), XV::I(rng.range(0, 4)))])),
        ("nil".into(), XV::N),
        // a field named like a symbol (the symbol `limit` has another value): the two namespaces
        // must never be confused
        ("limit".into(), XV::I(rng.range(20, 29))),
    ];
    // drop a few fields so that references to them become UnknownRef in some runs
    if rng.chance(1, 4) {
        let i = rng.usize(fields.len());
        fields.remove(i);
    }
    let refs = fields.iter().map(|(k, v)| (k.clone(), crate::gen::ty_of(v))).collect();
    (XV::M(fields), refs)
}

pub fn standard_symbols(rng: &mut Rng) -> Vec<(String, XV)> {
    vec![
        ("limit".into(), XV::I(rng.range(0, 9))),
        ("on".into(), XV::B(rng.chance(1, 2))),
        ("label".into(), XV::s("sym")),
        // symbols named like input fields, with other values
        ("x".into(), XV::I(rng.range(30, 39))),
        ("flag".into(), XV::s("not a bool")),
    ]
}

/// Random suspension behaviour for up to `calls` invocations of `task`.
pub fn random_behaviour(rng: &mut Rng, task: usize, calls: u32, p_susp: u64, max_susp: u64) -> Vec<Beh> {
    let mut out = vec![];
    for call in 0..calls {
        if !rng.chance(p_susp, 1000) {
            continue;
        }
        let n = 1 + rng.below(max_susp);
        let susp = (0..n)
            .map(|_| if rng.chance(1, 2) { Susp::SelfWake } else { Susp::Deferred(1 + rng.below(50) * 1_000_000) })
            .collect();
        out.push(Beh { task, call, susp, panic: false });
    }
    out
}

/// PCT-style schedule for `tasks` tasks: distinct random priorities and up to three change points.
pub fn random_priorities(rng: &mut Rng, tasks: usize, exec: &mut ExecSpec) {
    let mut p: Vec<u32> = (0..tasks as u32).map(|i| 10 + i).collect();
    for i in (1..p.len()).rev() {
        let j = rng.usize(i + 1);
        p.swap(i, j);
    }
    exec.priorities = p;
    let d = rng.below(4);
    exec.prio_changes = (0..d).map(|i| (rng.below(80) as u32, i as u32)).collect();
}

pub fn random_picks(rng: &mut Rng, len: usize, tasks: usize, p_spurious: u64, p_advance: u64) -> Vec<Pick> {
    (0..len)
        .map(|_| Pick {
            task: rng.below(tasks.max(1) as u64) as u16,
            spurious: rng.chance(p_spurious, 1000),
            advance: rng.chance(p_advance, 1000),
        })
        .collect()
}

/// Distinct rule names whose sorted order (almost always) differs from the order they are added in.
pub fn rule_names(rng: &mut Rng, n: usize) -> Vec<String> {
    let mut pool: Vec<String> = ["zeta", "alpha", "Mid", "rule 10", "rule 2", "b", "a", "_x", "\u{3a9}mega", "10", "9", "B"]
        .iter()
        .map(|s| s.to_string())
        .collect();
    let mut out = vec![];
    for i in 0..n {
        if pool.is_empty() {
            out.push(format!("r{}", 1000 - i));
        } else {
            let j = rng.usize(pool.len());
            out.push(pool.swap_remove(j));
        }
    }
    out
}

pub fn generate(seed: u64, thorough: bool) -> Scenario {
    let mut rng = Rng::new(seed);
    let mut scn = Scenario::new("C05");
    let (input, refs) = standard_input(&mut rng);
    // a non-map input now and then: every reference is then an InvalidType error
    let input = if rng.chance(1, 40) { XV::I(3) } else { input };
    scn.symbols = standard_symbols(&mut rng);
    let syms = scn.symbols.iter().map(|(k, v)| (k.clone(), crate::gen::ty_of(v))).collect();
    let mut cfg = GenCfg::swarm(&mut rng);
    if thorough && rng.chance(1, 3) {
        // deeper and larger trees in the thorough tier
        cfg.max_depth += 1 + rng.below(2) as u32;
        cfg.max_nodes = 60;
        cfg.max_probes = 20;
    }
    scn.text_build = rng.chance(1, 12);
    cfg.allow_in = scn.text_build;
    // in a third of the runs some functions are cacheable and calls repeat (same site, or a whole call
    // sub-expression verbatim): the argument of a cached call must still be evaluated, exactly once
    let with_cache = rng.chance(1, 3);
    let cache_mask = if with_cache { rng.next_u64() } else { 0 };
    if with_cache {
        cfg.p_repeat_site = *rng.pick(&[100, 300]);
        cfg.p_repeat_subtree = *rng.pick(&[150, 400]);
        cfg.p_nested_call = cfg.p_nested_call.max(200);
    }
    let nrules = 1 + rng.usize(3);
    let names = rule_names(&mut rng, nrules);
    let mut grng = rng.fork();
    let mut g = Gen::new(&mut grng, cfg, refs, syms);
    for i in 0..nrules {
        g.nodes = 0;
        g.probes = 0;
        let ty = *g.rng.pick(&ALL_TYS);
        let d = g.cfg.max_depth;
        let expr = g.gen(ty, d);
        scn.rules.push(RuleSpec { name: names[i].clone(), expr });
    }
    scn.functions = g.functions(&|t: Ty| (cache_mask >> (t as u32)) & 1 == 1, true, true, seed);
    scn.inputs = vec![InputSpec::Val(input)];
    scn.tasks = vec![TaskSpec { tag: 0, entry: Entry::RuleSet, input: 0, start: Start::Now }];
    let p_susp = *rng.pick(&[0, 200, 500, 900]);
    scn.behaviour = random_behaviour(&mut rng, 0, 40, p_susp, 3);
    let p_spur = *rng.pick(&[0, 0, 100, 1000]);
    scn.picks = random_picks(&mut rng, 60, 1, p_spur, 100);
    scn.exec.fresh_waker = rng.chance(1, 4);
    scn.exec.max_steps = 600;
    scn
}

// ------------------------------------------------- delegation to reval for
// the *value* of a strict node on already-evaluated constants

pub fn eval_const(expr: &Expr, facts: &Value) -> Result<Result<Value, ErrSum>, String> {
    let fut = expr.evaluate(facts);
    let mut fut = std::pin::pin!(fut);
    let mut cx = Context::from_waker(Waker::noop());
    match fut.as_mut().poll(&mut cx) {
        Poll::Ready(r) => Ok(r.map_err(|e| err_sum(&e))),
        Poll::Pending => Err("function-free constant expression returned Pending".into()),
    }
}

// ------------------------------------------------------------- the model

#[derive(Clone, Debug, PartialEq)]
pub enum MEv {
    Invoke { f: String, arg: String },
    Return { ok: bool, val: String },
}

pub struct Model<'a> {
    pub fns: &'a [FnSpec],
    pub syms: BTreeMap<String, Value>,
    pub facts: Value,
    pub tag: u32,
    pub ordinals: HashMap<(usize, String), u32>,
    pub cache: HashMap<(usize, String), Value>,
    /// arguments of the cacheable calls made so far, per function (for the don't-care test below)
    pub cached_args: Vec<(usize, Value, String)>,
    /// set when a cacheable call met an argument that is `==` to an earlier one but not identical
    /// (0.0 / -0.0, d1.0 / d1.00) or not `==` to itself (NaN): whether that is "the same argument"
    /// is not fixed by any statement, so the run is not judged
    pub ambiguous_cache_key: bool,
    pub log: Vec<MEv>,
    pub sig: u64,
    pub decisions: u32,
    pub cuts: u32,
    pub cov: &'a mut Counters,
    pub harness_error: Option<String>,
}

type MRes = Result<Value, ErrSum>;

fn err(class: &str, payload: Vec<String>) -> ErrSum {
    ErrSum { class: class.to_string(), payload }
}

impl<'a> Model<'a> {
    fn delegate(&mut self, e: Expr) -> MRes {
        match eval_const(&e, &self.facts) {
            Ok(r) => r,
            Err(h) => {
                self.harness_error = Some(h);
                Err(err("HarnessError", vec![]))
            }
        }
    }

    fn note(&mut self, kind: &str, pos: usize, status: &str) {
        self.cov.bump(&format!("cov.{kind}.{pos}.{status}"));
    }

    fn decide(&mut self, kind: &str, what: &str) {
        self.decisions += 1;
        self.sig = combine(self.sig, hash_str(kind) ^ hash_str(what));
    }

    /// children evaluated strictly in order; the first error cuts the rest
    fn strict(&mut self, kind: &str, kids: &[&X]) -> Result<Vec<Value>, ErrSum> {
        let mut vals = Vec::with_capacity(kids.len());
        for (i, k) in kids.iter().enumerate() {
            match self.eval(k) {
                Ok(v) => {
                    self.note(kind, i, "reached");
                    vals.push(v);
                }
                Err(e) => {
                    self.note(kind, i, "reached");
                    for j in i + 1..kids.len() {
                        self.note(kind, j, "cut");
                        self.cuts += 1;
                    }
                    self.sig = combine(self.sig, hash_str(kind) ^ (i as u64 + 77));
                    return Err(e);
                }
            }
        }
        Ok(vals)
    }

    pub fn eval(&mut self, x: &X) -> MRes {
        let kind = x.kind();
        match x {
            X::Tower(..) | X::Chain(..) | X::ManyCalls(..) => {
                if let X::Chain(_, items) = x {
                    if items.len() >= 34 {
                        self.cov.bump("hit.operator_chain_of_34_or_more_operands");
                    }
                }
                let d = x.desugar();
                self.eval(&d)
            }
            X::Val(v) => Ok(v.to_value()),
            X::Ref(n) => self.delegate(Expr::reff(n)),
            X::Sym(n) => match self.syms.get(n) {
                Some(v) => Ok(v.clone()),
                None => Err(err("InvalidSymbol", vec![n.clone()])),
            },
            X::Call(name, arg) => {
                fn has_call(x: &X) -> bool {
                    matches!(x, X::Call(..)) || x.children().into_iter().any(has_call)
                }
                let effectful_arg = has_call(arg);
                if effectful_arg {
                    self.cov.bump("hit.call_with_a_call_in_its_argument");
                }
                let a = self.strict(&kind, &[arg])?.pop().unwrap();
                let Some(fi) = self.fns.iter().position(|f| f.name == *name) else {
                    return Err(err("UnknownUserFunction", vec![name.clone()]));
                };
                let spec = &self.fns[fi];
                let key = canon(&a);
                if spec.cacheable {
                    #[allow(clippy::eq_op)]
                    if a != a || self.cached_args.iter().any(|(f, v, k)| *f == fi && *v == a && *k != key) {
                        self.ambiguous_cache_key = true;
                    }
                    self.cached_args.push((fi, a.clone(), key.clone()));
                    if let Some(v) = self.cache.get(&(fi, key.clone())) {
                        if effectful_arg {
                            self.cov.bump("hit.cached_call_whose_argument_made_calls");
                        }
                        return Ok(v.clone());
                    }
                }
                let ordinal = {
                    let o = self.ordinals.entry((fi, key.clone())).or_insert(0);
                    let v = *o;
                    *o += 1;
                    v
                };
                self.log.push(MEv::Invoke { f: name.clone(), arg: key.clone() });
                match resolve(spec, &key, &a, self.tag, ordinal) {
                    Ok(v) => {
                        self.log.push(MEv::Return { ok: true, val: canon(&v) });
                        if spec.cacheable {
                            self.cache.insert((fi, key), v.clone());
                        }
                        Ok(v)
                    }
                    Err(m) => {
                        self.log.push(MEv::Return { ok: false, val: m.clone() });
                        Err(err("UserFunctionError", vec![name.clone(), name.clone(), m]))
                    }
                }
            }
            X::Idx(a, idx) => {
                let v = self.strict(&kind, &[a])?.pop().unwrap();
                let index = match idx {
                    XIdx::Field(f) => Index::from(f.as_str()),
                    XIdx::Pos(p) => Index::from(*p),
                };
                self.delegate(Expr::index(Expr::value(v), index))
            }
            X::If(c, t, e) => {
                let cv = match self.eval(c) {
                    Ok(v) => v,
                    Err(er) => {
                        self.note(&kind, 0, "reached");
                        self.note(&kind, 1, "cut");
                        self.note(&kind, 2, "cut");
                        self.cuts += 1;
                        return Err(er);
                    }
                };
                self.note(&kind, 0, "reached");
                match cv {
                    Value::Bool(true) => {
                        self.decide("If", "then");
                        self.note(&kind, 1, "reached");
                        self.note(&kind, 2, "skipped");
                        self.eval(t)
                    }
                    Value::Bool(false) => {
                        self.decide("If", "else");
                        self.note(&kind, 1, "skipped");
                        self.note(&kind, 2, "reached");
                        self.eval(e)
                    }
                    _ => {
                        self.decide("If", "illtyped");
                        self.note(&kind, 1, "skipped");
                        self.note(&kind, 2, "skipped");
                        Err(err("InvalidType", vec![]))
                    }
                }
            }
            X::Bin(op @ (BinOp::And | BinOp::Or), l, r) => {
                let decider = *op == BinOp::Or; // `or` is decided by true, `and` by false
                let lv = match self.eval(l) {
                    Ok(v) => v,
                    Err(er) => {
                        self.note(&kind, 0, "reached");
                        self.note(&kind, 1, "cut");
                        self.cuts += 1;
                        return Err(er);
                    }
                };
                self.note(&kind, 0, "reached");
                let Value::Bool(lb) = lv else {
                    self.decide(&kind, "left-illtyped");
                    self.note(&kind, 1, "skipped");
                    return Err(err("InvalidType", vec![]));
                };
                if lb == decider {
                    self.decide(&kind, "short-circuit");
                    self.note(&kind, 1, "skipped");
                    return Ok(Value::Bool(decider));
                }
                self.decide(&kind, "needs-right");
                self.note(&kind, 1, "reached");
                match self.eval(r)? {
                    Value::Bool(rb) => Ok(Value::Bool(rb)),
                    _ => Err(err("InvalidType", vec![])),
                }
            }
            X::Bin(op @ (BinOp::Eq | BinOp::Neq), l, r) => {
                let neg = *op == BinOp::Neq;
                let lv = match self.eval(l) {
                    Ok(v) => v,
                    Err(er) => {
                        self.note(&kind, 0, "reached");
                        self.note(&kind, 1, "cut");
                        self.cuts += 1;
                        return Err(er);
                    }
                };
                self.note(&kind, 0, "reached");
                if lv == Value::None {
                    self.decide(&kind, "left-none");
                    self.note(&kind, 1, "skipped");
                    return Ok(Value::Bool(neg));
                }
                self.decide(&kind, "compare");
                self.note(&kind, 1, "reached");
                let rv = self.eval(r)?;
                Ok(Value::Bool((lv == rv) != neg))
            }
            X::Bin(op, l, r) => {
                let mut vals = self.strict(&kind, &[l, r])?;
                let b = vals.pop().unwrap();
                let a = vals.pop().unwrap();
                self.delegate(bin_expr(*op, Expr::value(a), Expr::value(b)))
            }
            X::In(item, coll) => {
                // built as contains(coll, item); the generator keeps one side effect-free
                let mut vals = self.strict(&kind, &[coll, item])?;
                let i = vals.pop().unwrap();
                let c = vals.pop().unwrap();
                self.delegate(Expr::contains(Expr::value(c), Expr::value(i)))
            }
            X::Un(op, a) => {
                let v = self.strict(&kind, &[a])?.pop().unwrap();
                self.delegate(un_expr(*op, Expr::value(v)))
            }
            X::Vec(items) => {
                let kids: Vec<&X> = items.iter().collect();
                Ok(Value::Vec(self.strict(&kind, &kids)?))
            }
            X::Map(entries) => {
                // entries are evaluated in key order, whatever order they were written in
                let mut sorted: Vec<&(String, X)> = entries.iter().collect();
                sorted.sort_by(|a, b| a.0.cmp(&b.0));
                if sorted.iter().map(|e| &e.0).ne(entries.iter().map(|e| &e.0)) {
                    self.cov.bump("hit.map_insertion_order_differs_from_key_order");
                }
                let kids: Vec<&X> = sorted.iter().map(|e| &e.1).collect();
                let vals = self.strict(&kind, &kids)?;
                Ok(Value::Map(sorted.iter().map(|e| e.0.clone()).zip(vals).collect()))
            }
        }
    }
}

// ------------------------------------------------------------- the oracle

pub fn shape_hash(x: &X) -> u64 {
    let mut h = hash_str(&x.kind());
    for c in x.children() {
        h = combine(h, shape_hash(c));
    }
    h
}

pub fn check(scn: &Scenario, c: &mut Counters) -> Verdict {
    let out = match run(scn) {
        Ok(o) => o,
        Err(e) => return Verdict::harness(e),
    };
    c.absorb_run(&out);
    if out.lost_wakeup.is_some() || out.budget_exhausted {
        // liveness under schedules is C12's business
        c.bump("skipped.liveness");
        return Verdict::skip("evaluation did not finish under this schedule (C12)".into());
    }
    // what the single task returned
    let outcomes = match &out.ends[0] {
        TaskEnd::Finished(TaskResult::Outcomes(o)) => o.clone(),
        TaskEnd::Finished(other) => {
            // the call as a whole failing is C09's business; the order model cannot align
            c.bump("skipped.call_failed");
            return Verdict::skip(format!("evaluate_value returned {other:?} (C09)"));
        }
        TaskEnd::ForeignPanic(m) => {
            // a panic inside evaluation is C01's business, not an ordering fact; not judged here
            c.bump("skipped.foreign_panic");
            return Verdict::skip(format!("panic during evaluation: {m}"));
        }
        other => return Verdict::harness(format!("C05 task ended as {other:?} (lost={:?})", out.lost_wakeup)),
    };
    if outcomes.len() != scn.rules.len() {
        // C09's business; the order model needs one outcome per rule to align
        c.bump("skipped.outcome_count");
        return Verdict::skip("outcome count differs from rule count (C09)".into());
    }
    if outcomes.iter().zip(scn.rules.iter()).any(|(o, r)| o.rule_name != r.name) {
        c.bump("skipped.outcome_order");
        return Verdict::skip("outcomes are not in rule order (C09)".into());
    }
    if outcomes.iter().any(|o| matches!(&o.value, Res::Err(e) if e.class.starts_with("Other("))) {
        // an error variant this harness does not know (a limit or feature added later): not judged
        c.bump("skipped.unknown_error_variant");
        return Verdict::skip("outcome carries an error variant unknown to the harness".into());
    }

    // the model
    let facts = match &scn.inputs[0] {
        InputSpec::Val(v) => v.to_value(),
        _ => return Verdict::harness("C05 expects a Val input".into()),
    };
    let mut model = Model {
        fns: &scn.functions,
        syms: scn.symbols.iter().map(|(k, v)| (k.clone(), v.to_value())).collect(),
        facts,
        tag: scn.tasks[0].tag,
        ordinals: HashMap::new(),
        cache: HashMap::new(),
        cached_args: vec![],
        ambiguous_cache_key: false,
        log: vec![],
        sig: 0,
        decisions: 0,
        cuts: 0,
        cov: c,
        harness_error: None,
    };
    let mut expected: Vec<Res> = vec![];
    let mut sig = 0u64;
    for r in &scn.rules {
        let res = match model.eval(&r.expr) {
            Ok(v) => Res::Ok(canon(&v)),
            Err(e) => Res::Err(e),
        };
        sig = combine(sig, combine(shape_hash(&r.expr), hash_str(res.class())));
        expected.push(res);
    }
    if let Some(h) = model.harness_error.take() {
        return Verdict::harness(h);
    }
    if model.ambiguous_cache_key {
        c.bump("skipped.ambiguous_cache_key");
        return Verdict::skip("a cacheable call met an argument equal-but-not-identical to an earlier one (don't-care zone)".into());
    }
    let mlog = std::mem::take(&mut model.log);
    let (decisions, cuts, msig) = (model.decisions, model.cuts, model.sig);
    drop(model);

    // observed invocation history of the task
    let mut olog: Vec<MEv> = vec![];
    let mut open: Option<u64> = None;
    for ev in &out.log {
        match ev {
            Ev::Invoke { inv, f, arg, .. } => {
                if open.is_some() {
                    return Verdict::violation(
                        "calls-overlap",
                        format!("{f}({arg}) invoked while invocation {open:?} had not returned"),
                    );
                }
                open = Some(*inv);
                olog.push(MEv::Invoke { f: f.clone(), arg: arg.clone() });
            }
            Ev::Return { inv, ok, val, .. } => {
                if open != Some(*inv) {
                    return Verdict::harness("Return without matching Invoke".into());
                }
                open = None;
                olog.push(MEv::Return { ok: *ok, val: val.clone() });
            }
            Ev::Cancel { .. } => {
                return Verdict::violation("call-dropped", "a user-function call was dropped before completion although nothing cancelled the evaluation".into());
            }
            _ => {}
        }
    }
    if olog != mlog {
        let i = olog.iter().zip(mlog.iter()).position(|(a, b)| a != b).unwrap_or(olog.len().min(mlog.len()));
        let clause = if olog.len() > mlog.len() && olog[..mlog.len()] == mlog[..] {
            "invoked-unreached-or-repeated"
        } else if mlog.len() > olog.len() && mlog[..olog.len()] == olog[..] {
            "skipped-reached-call"
        } else {
            "history-differs"
        };
        return Verdict::violation(
            clause,
            format!("invocation history differs at event {i}: observed {:?} expected {:?}\nobserved={olog:?}\nexpected={mlog:?}", olog.get(i), mlog.get(i)),
        );
    }
    for (i, (o, e)) in outcomes.iter().zip(expected.iter()).enumerate() {
        // how a user-function failure is wrapped (name, carried error) is C11's business
        let same = match (&o.value, e) {
            (Res::Err(a), Res::Err(b)) if a.class == "UserFunctionError" && b.class == "UserFunctionError" => true,
            (a, b) => a == b,
        };
        if !same {
            return Verdict::violation(
                "outcome-differs",
                format!("rule {i} ({}) observed {:?} expected {:?}", scn.rules[i].name, o.value, e),
            );
        }
    }
    // distinctness: decisions taken, error cuts, suspension vector, shapes
    let mut s = combine(sig, msig);
    for b in &scn.behaviour {
        if (b.call as usize) < mlog.len() / 2 {
            s = combine(s, b.call as u64 * 16 + b.susp.len() as u64);
        }
    }
    let nontrivial = (decisions > 0 || cuts > 0) && !mlog.is_empty();
    c.add("model.decisions", decisions as u64);
    c.add("model.error_cuts", cuts as u64);
    c.add("model.invocations", (mlog.len() / 2) as u64);
    if scn.text_build {
        c.bump("runs.text_built");
    }
    Verdict::pass(if nontrivial { Some(s) } else { None })
}

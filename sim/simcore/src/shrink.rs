//! Delta debugging of a scenario record: drop rules / tasks / faults /
//! suspensions, simplify expressions, shorten the schedule — while the *same
//! oracle clause* keeps failing.

use crate::spec::*;
use crate::xexpr::X;
use crate::xv::XV;

fn remove_rule(s: &Scenario, i: usize) -> Option<Scenario> {
    if s.rules.len() <= 1 {
        return None;
    }
    let mut n = s.clone();
    n.rules.remove(i);
    // tasks that evaluate that rule's expression alone go with it
    let mut keep = vec![];
    for (ti, t) in s.tasks.iter().enumerate() {
        match t.entry {
            Entry::ExprOnly(r) if r == i => {}
            _ => keep.push(ti),
        }
    }
    if keep.len() != s.tasks.len() {
        n = retain_tasks(&n, &keep)?;
    }
    for t in n.tasks.iter_mut() {
        if let Entry::ExprOnly(r) = &mut t.entry {
            if *r > i {
                *r -= 1;
            }
        }
    }
    Some(n)
}

fn retain_tasks(s: &Scenario, keep: &[usize]) -> Option<Scenario> {
    if keep.is_empty() {
        return None;
    }
    let map = |old: usize| keep.iter().position(|k| *k == old);
    let mut n = s.clone();
    n.tasks = keep.iter().map(|k| s.tasks[*k].clone()).collect();
    for t in n.tasks.iter_mut() {
        if let Start::AfterEnd(o) = t.start {
            t.start = match map(o) {
                Some(m) => Start::AfterEnd(m),
                None => Start::Now,
            };
        }
    }
    n.behaviour = s
        .behaviour
        .iter()
        .filter_map(|b| map(b.task).map(|m| Beh { task: m, ..b.clone() }))
        .collect();
    n.faults = s
        .faults
        .iter()
        .filter_map(|f| match *f {
            Fault::CancelAfterPending { task, k } => map(task).map(|m| Fault::CancelAfterPending { task: m, k }),
            Fault::Deadline { task, after } => map(task).map(|m| Fault::Deadline { task: m, after }),
        })
        .collect();
    for p in n.picks.iter_mut() {
        p.task = map(p.task as usize).unwrap_or(0) as u16;
    }
    Some(n)
}

fn count_nodes(x: &X) -> usize {
    x.node_count()
}

/// Replace the node with preorder index `target` by `repl(node)`.
fn subst(x: &X, target: usize, counter: &mut usize, repl: &dyn Fn(&X) -> Option<X>) -> Option<X> {
    let me = *counter;
    *counter += 1;
    if me == target {
        return repl(x);
    }
    let mut hit: Option<(usize, X)> = None;
    for (i, k) in x.children().into_iter().enumerate() {
        let size = count_nodes(k);
        if target < *counter + size {
            let r = subst(k, target, counter, repl)?;
            hit = Some((i, r));
            break;
        }
        *counter += size;
    }
    let (i, r) = hit?;
    let mut n = x.clone();
    *n.children_mut().into_iter().nth(i).unwrap() = r;
    Some(n)
}

fn expr_candidates(x: &X) -> Vec<X> {
    let total = count_nodes(x);
    let mut out = vec![];
    for idx in 0..total {
        // hoist each child
        for ci in 0..3 {
            let mut c = 0;
            if let Some(n) = subst(x, idx, &mut c, &|node| node.children().get(ci).map(|k| (*k).clone())) {
                out.push(n);
            }
        }
        for konst in [XV::N, XV::B(true), XV::B(false), XV::I(1)] {
            let mut c = 0;
            let k2 = konst.clone();
            if let Some(n) = subst(x, idx, &mut c, &move |node| {
                if matches!(node, X::Val(_)) {
                    None
                } else {
                    Some(X::Val(k2.clone()))
                }
            }) {
                out.push(n);
            }
        }
        // drop one element of a list / map
        let mut c = 0;
        if let Some(n) = subst(x, idx, &mut c, &|node| match node {
            X::Vec(v) if !v.is_empty() => Some(X::Vec(v[1..].to_vec())),
            X::Chain(op, v) if v.len() > 1 => Some(X::Chain(*op, v[..v.len() - 1].to_vec())),
            X::Tower(op, n, a) if *n > 0 => Some(X::Tower(*op, n / 2, a.clone())),
            X::ManyCalls(f, from, n) if *n > 1 => Some(X::ManyCalls(f.clone(), *from, n / 2)),
            X::Map(m) if m.len() > 1 => Some(X::Map(m[1..].to_vec())),
            _ => None,
        }) {
            out.push(n);
        }
    }
    out
}

/// Candidate simplifications, most drastic first.
fn remove_rule_range(s: &Scenario, start: usize, end: usize) -> Option<Scenario> {
    let mut cur = s.clone();
    for i in (start..end).rev() {
        cur = remove_rule(&cur, i)?;
    }
    Some(cur)
}

pub fn candidates(s: &Scenario) -> Vec<Scenario> {
    candidates_staged(s, false)
}

/// `coarse_only`: structural removals only (rules, tasks, faults, suspensions, schedule) — cheap to
/// enumerate even for very large scenarios; the fine stage adds expression and script simplification.
pub fn candidates_staged(s: &Scenario, coarse_only: bool) -> Vec<Scenario> {
    let mut out = vec![];
    // rules: whole chunks first
    let nr = s.rules.len();
    let mut chunk = nr / 2;
    while chunk >= 2 {
        let mut start = 0;
        while start < nr {
            let end = (start + chunk).min(nr);
            if end - start < nr {
                if let Some(n) = remove_rule_range(s, start, end) {
                    out.push(n);
                }
            }
            start = end;
        }
        chunk /= 2;
        if out.len() > 64 {
            break;
        }
    }
    for i in 0..s.rules.len() {
        if let Some(n) = remove_rule(s, i) {
            out.push(n);
        }
    }
    // tasks: first whole chunks (halves, quarters, …), then one at a time
    let nt = s.tasks.len();
    let mut chunk = nt / 2;
    while chunk >= 2 {
        let mut start = 0;
        while start < nt {
            let end = (start + chunk).min(nt);
            let keep: Vec<usize> = (0..nt).filter(|k| *k < start || *k >= end).collect();
            if let Some(n) = retain_tasks(s, &keep) {
                out.push(n);
            }
            start = end;
        }
        chunk /= 2;
    }
    for i in 0..nt {
        let keep: Vec<usize> = (0..nt).filter(|k| *k != i).collect();
        if let Some(n) = retain_tasks(s, &keep) {
            out.push(n);
        }
    }
    // inputs: unused ones go; map inputs lose fields
    for i in 0..s.inputs.len() {
        if s.inputs.len() > 1 && !s.tasks.iter().any(|t| t.input == i) {
            let mut n = s.clone();
            n.inputs.remove(i);
            for t in n.tasks.iter_mut() {
                if t.input > i {
                    t.input -= 1;
                }
            }
            out.push(n);
        }
        if let InputSpec::Val(XV::M(fields)) = &s.inputs[i] {
            if !fields.is_empty() {
                let mut n = s.clone();
                n.inputs[i] = InputSpec::Val(XV::M(vec![]));
                out.push(n);
                for f in 0..fields.len() {
                    let mut n = s.clone();
                    if let InputSpec::Val(XV::M(ff)) = &mut n.inputs[i] {
                        ff.remove(f);
                    }
                    out.push(n);
                }
            }
        }
    }
    if !s.faults.is_empty() {
        for i in 0..s.faults.len() {
            let mut n = s.clone();
            n.faults.remove(i);
            out.push(n);
        }
    }
    if !s.behaviour.is_empty() {
        let mut n = s.clone();
        n.behaviour.clear();
        out.push(n);
        for i in 0..s.behaviour.len() {
            let mut n = s.clone();
            n.behaviour.remove(i);
            out.push(n);
            if s.behaviour[i].susp.len() > 1 || (s.behaviour[i].panic && !s.behaviour[i].susp.is_empty()) {
                let mut n = s.clone();
                n.behaviour[i].susp.pop();
                out.push(n);
            }
        }
    }
    if !s.picks.is_empty() {
        let mut n = s.clone();
        n.picks.clear();
        out.push(n);
        let mut n = s.clone();
        n.picks.truncate(s.picks.len() / 2);
        out.push(n);
        if s.picks.iter().any(|p| p.spurious) {
            let mut n = s.clone();
            n.picks.iter_mut().for_each(|p| p.spurious = false);
            out.push(n);
        }
        if s.picks.iter().any(|p| p.advance) {
            let mut n = s.clone();
            n.picks.iter_mut().for_each(|p| p.advance = false);
            out.push(n);
        }
    }
    if s.exec.fresh_waker {
        let mut n = s.clone();
        n.exec.fresh_waker = false;
        out.push(n);
    }
    if !s.exec.priorities.is_empty() {
        let mut n = s.clone();
        n.exec.priorities.clear();
        n.exec.prio_changes.clear();
        out.push(n);
        if !s.exec.prio_changes.is_empty() {
            let mut n = s.clone();
            n.exec.prio_changes.pop();
            out.push(n);
        }
    }
    if s.exec.workers > 1 {
        let mut n = s.clone();
        n.exec.worker_picks.truncate(s.exec.worker_picks.len() / 2);
        out.push(n);
    }
    if s.text_build {
        let mut n = s.clone();
        n.text_build = false;
        out.push(n);
    }
    for t in 0..s.tasks.len() {
        if s.tasks[t].start != Start::Now {
            let mut n = s.clone();
            n.tasks[t].start = Start::Now;
            out.push(n);
        }
    }
    if coarse_only {
        return out;
    }
    for (ri, r) in s.rules.iter().enumerate() {
        for e in expr_candidates(&r.expr) {
            let mut n = s.clone();
            n.rules[ri].expr = e;
            out.push(n);
        }
    }
    for fi in 0..s.functions.len() {
        if s.functions[fi].fail_mod != 0 {
            let mut n = s.clone();
            n.functions[fi].fail_mod = 0;
            out.push(n);
        }
        for ri in 0..s.functions[fi].rows.len() {
            let mut n = s.clone();
            n.functions[fi].rows.remove(ri);
            out.push(n);
        }
    }
    for i in 0..s.symbols.len() {
        let mut n = s.clone();
        n.symbols.remove(i);
        out.push(n);
    }
    // drop functions no expression mentions
    fn mentions(x: &X, name: &str) -> bool {
        matches!(x, X::Call(n, _) if n == name) || x.children().into_iter().any(|c| mentions(c, name))
    }
    for fi in 0..s.functions.len() {
        if !s.rules.iter().any(|r| mentions(&r.expr, &s.functions[fi].name)) {
            let mut n = s.clone();
            n.functions.remove(fi);
            out.push(n);
        }
    }
    out
}

/// Greedy descent. `fails(candidate)` must say whether the candidate still
/// violates the same oracle clause.
pub fn shrink(start: Scenario, max_execs: usize, fails: &mut dyn FnMut(&Scenario) -> bool) -> (Scenario, usize) {
    let mut cur = start;
    let mut execs = 0;
    loop {
        let mut progressed = false;
        for cand in candidates(&cur) {
            if execs >= max_execs {
                return (cur, execs);
            }
            execs += 1;
            if fails(&cand) {
                cur = cand;
                progressed = true;
                break;
            }
        }
        if !progressed {
            return (cur, execs);
        }
    }
}

//! Shared verdict / counters plumbing between the per-property oracles and the driver.

use crate::exec::RunOut;
use serde::{Deserialize, Serialize};
use std::collections::BTreeMap;

#[derive(Clone, Debug, Default, Serialize, Deserialize)]
pub struct Counters(pub BTreeMap<String, u64>);

impl Counters {
    pub fn bump(&mut self, k: &str) {
        self.add(k, 1);
    }
    pub fn add(&mut self, k: &str, n: u64) {
        if n == 0 && self.0.contains_key(k) {
            return;
        }
        *self.0.entry(k.to_string()).or_insert(0) += n;
    }
    pub fn get(&self, k: &str) -> u64 {
        self.0.get(k).copied().unwrap_or(0)
    }
    pub fn merge(&mut self, other: &Counters) {
        for (k, v) in &other.0 {
            let e = self.0.entry(k.clone()).or_insert(0);
            *e = e.wrapping_add(*v);
        }
    }
    /// Fault kinds that actually fired in this execution, plus volume counters.
    pub fn absorb_run(&mut self, out: &RunOut) {
        self.add("exec.executions", 1);
        // order-independent sum of per-execution event-log hashes
        let d = self.0.entry("digest.events".to_string()).or_insert(0);
        *d = d.wrapping_add(crate::world::log_hash(&out.log) >> 8);
        self.add("exec.polls", out.stats.polls);
        self.add("exec.steps", out.stats.steps as u64);
        self.add("exec.vtime_ns", out.stats.vtime_ns);
        self.add("exec.clock_advances", out.stats.advances);
        self.add("fault.spurious_poll", out.stats.spurious_poll);
        self.add("fault.fresh_waker", out.stats.fresh_waker_polls);
        self.add("fault.cancel_at_point", out.stats.cancel_at_point);
        self.add("fault.deadline_cancel", out.stats.deadline_cancel);
        self.add("fault.interleave_switch", out.stats.interleave_switch);
        self.add("fault.retry_after_abandon", out.stats.retry_after_abandon);
        self.add("fault.worker_migration", out.stats.worker_migration);
        self.add("fault.fn_error", out.wstats.fn_error);
        self.add("fault.fn_suspend_selfwake", out.wstats.fn_suspend_selfwake);
        self.add("fault.fn_suspend_deferred", out.wstats.fn_suspend_deferred);
        self.add("fault.fn_panic", out.wstats.fn_panic);
        self.add("fault.fn_hang", out.wstats.fn_hang);
        self.add("exec.invocations", out.wstats.invocations);
        self.add("hit.cancel_while_deferred_wake_outstanding", out.wstats.cancel_with_wake_outstanding);
        self.add("hit.wake_fired_after_call_dropped", out.wstats.wake_after_cancel);
        self.add("hit.call_polled_before_its_wake", out.wstats.spurious_call_polls);
        self.add("hit.stale_waker_fired", out.stats.stale_wakes);
    }
}

#[derive(Clone, Debug, Serialize, Deserialize)]
pub struct Violation {
    /// the oracle clause that failed — shrinking preserves it
    pub clause: String,
    pub detail: String,
}

#[derive(Clone, Debug)]
pub struct Verdict {
    pub violation: Option<Violation>,
    /// harness could not run or judge the record: never a verdict (exit 2)
    pub harness_error: Option<String>,
    /// signature for the distinctness measure, present when the run was non-trivial
    pub sig: Option<u64>,
    /// not judged (outside the property's scope), with the reason
    pub skipped: Option<String>,
}

impl Verdict {
    pub fn pass(sig: Option<u64>) -> Self {
        Verdict { violation: None, harness_error: None, sig, skipped: None }
    }
    pub fn violation(clause: &str, detail: String) -> Self {
        Verdict {
            violation: Some(Violation { clause: clause.to_string(), detail }),
            harness_error: None,
            sig: None,
            skipped: None,
        }
    }
    pub fn harness(msg: String) -> Self {
        Verdict { violation: None, harness_error: Some(msg), sig: None, skipped: None }
    }
    pub fn skip(why: String) -> Self {
        Verdict { violation: None, harness_error: None, sig: None, skipped: Some(why) }
    }
}

//! The scenario record: everything a simulated run is made of, as data.
//! Executing a record consults no PRNG; a record with entries removed is still
//! a complete deterministic execution (that is what makes shrinking possible).

use crate::xexpr::X;
use crate::xv::XV;
use serde::{Deserialize, Serialize};

/// Result type a scripted function is asked to produce.
#[derive(Clone, Copy, Debug, PartialEq, Eq, Hash, PartialOrd, Ord, Serialize, Deserialize)]
pub enum Ty {
    Bool,
    Int,
    Float,
    Dec,
    Str,
    DateTime,
    Duration,
    Vec,
    Map,
    NoneT,
}

#[derive(Clone, Debug, PartialEq, Serialize, Deserialize)]
pub enum ScriptOut {
    /// this constant
    Ok(XV),
    /// the argument itself
    Echo,
    /// element n of a list argument (none otherwise)
    Nth(usize),
    /// a string naming function, tag, ordinal and argument — unique per invocation
    Unique,
    /// a value of the given type derived from (salt, fn, arg[, tag][, ordinal])
    Typed(Ty),
    /// a typed harness error with this message
    Fail(String),
}

/// One row of a function's script; `None` fields match anything; first match wins.
#[derive(Clone, Debug, PartialEq, Serialize, Deserialize)]
pub struct ScriptRow {
    pub key: Option<String>,
    pub tag: Option<u32>,
    pub ordinal: Option<u32>,
    pub out: ScriptOut,
}

#[derive(Clone, Debug, PartialEq, Serialize, Deserialize)]
pub struct FnSpec {
    pub name: String,
    pub cacheable: bool,
    pub rows: Vec<ScriptRow>,
    pub default: ScriptOut,
    pub salt: u64,
    /// whether Typed/Unique results depend on the evaluation's tag / on the
    /// per-evaluation ordinal of the (fn, arg) invocation
    pub mix_tag: bool,
    pub mix_ordinal: bool,
    /// fail when hash(salt, fn, key[, tag][, ordinal]) % fail_mod == 0 (0 = never)
    pub fail_mod: u32,
    /// what a failure of this function is made of: 0 = the typed harness error; 1 = a
    /// `reval::Error::UserFunctionError` of an inner function wrapping it (a function that itself
    /// evaluated a ruleset and propagated the outcome); 2 = the harness error under an anyhow context
    #[serde(default)]
    pub fail_style: u8,
    /// dynamic `cacheable()`: when set, the function declares itself cacheable only until it has been
    /// invoked this many times in the current evaluation, and non-cacheable afterwards
    #[serde(default)]
    pub cacheable_first: Option<u32>,
}

impl FnSpec {
    pub fn new(name: &str, cacheable: bool, default: ScriptOut) -> Self {
        FnSpec {
            name: name.to_string(),
            cacheable,
            rows: vec![],
            default,
            salt: 0,
            mix_tag: false,
            mix_ordinal: false,
            fail_mod: 0,
            fail_style: 0,
            cacheable_first: None,
        }
    }
}

#[derive(Clone, Debug, PartialEq, Serialize, Deserialize)]
pub struct RuleSpec {
    pub name: String,
    pub expr: X,
}

/// How the facts reach the ruleset.
#[derive(Clone, Debug, PartialEq, Serialize, Deserialize)]
pub enum InputSpec {
    /// `evaluate_value(&Value)`
    Val(XV),
    /// `evaluate(&serde_json::Value)` parsed from this JSON text
    Json(String),
    /// `evaluate(&DerivedStruct{..})`
    Struct { age: i64, name: String, tags: Vec<String>, nested: Option<(i64, bool)> },
    /// `evaluate(&DerivedEnum::..)`: 0 unit, 1 newtype, 2 tuple, 3 struct variant
    Enum(u8, i64),
    /// `evaluate(&BTreeMap<i64,i64>)` — a map whose keys are not strings
    IntKeyMap(Vec<(i64, i64)>),
    /// `evaluate(&BTreeMap<String, BTreeMap<bool,i64>>)` — bad key one level down
    NestedBadKey(Vec<(String, Vec<(bool, i64)>)>),
    /// `evaluate(&())`
    Unit,
    /// `evaluate(&BTreeMap<String,i64>)`
    StrKeyMap(Vec<(String, i64)>),
    /// `evaluate_value(&[[[… leaf …]]])`: a list nested `depth` deep (kept flat in the record)
    DeepVal { depth: u32, leaf: i64 },
    /// `evaluate(&Chain { v, next: Some(Box<Chain …>) })`: a derived recursive struct, `depth` links
    DeepChain { depth: u32 },
    /// `evaluate(&T)` for further shapes of the serde data model: 0 i64, 1 String, 2 None::<i64>,
    /// 3 Some(i64), 4 Some(struct), 5 (i64, bool), 6 Vec<i64>, 7 newtype struct, 8 unit struct,
    /// 9 char, 10 bool, 11 empty string-keyed map, 12 f64, 13 tuple struct, 14 Vec<struct>
    Typed(u8, i64),
}

#[derive(Clone, Copy, Debug, PartialEq, Eq, Serialize, Deserialize)]
pub enum Entry {
    /// `RuleSet::evaluate_value` (or `evaluate(&T)` when the input is not `Val`)
    RuleSet,
    /// `Expr::evaluate` of rule #n's expression (no ruleset, no functions)
    ExprOnly(usize),
}

#[derive(Clone, Copy, Debug, PartialEq, Eq, Serialize, Deserialize)]
pub enum Start {
    /// as soon as the run begins
    Now,
    /// once the global step counter reaches n (or earlier if nothing else can run)
    AtStep(u32),
    /// after task #n has finished or was abandoned
    AfterEnd(usize),
}

#[derive(Clone, Debug, PartialEq, Serialize, Deserialize)]
pub struct TaskSpec {
    /// logical identity of the evaluation: scripts see it, retries share it
    pub tag: u32,
    pub entry: Entry,
    pub input: usize,
    pub start: Start,
}

#[derive(Clone, Copy, Debug, PartialEq, Eq, Serialize, Deserialize)]
pub enum Susp {
    /// wake_by_ref, then Pending
    SelfWake,
    /// store the waker, schedule a wake after this many virtual ns, Pending
    Deferred(u64),
    /// the call never completes (hung I/O): Pending, and no wake is ever scheduled
    Forever,
}

/// What the n-th user-function invocation of a task instance does besides
/// producing its scripted result.
#[derive(Clone, Debug, PartialEq, Serialize, Deserialize)]
pub struct Beh {
    pub task: usize,
    pub call: u32,
    pub susp: Vec<Susp>,
    /// panic instead of returning (after the suspensions)
    pub panic: bool,
}

#[derive(Clone, Copy, Debug, PartialEq, Eq, Serialize, Deserialize)]
pub struct Pick {
    pub task: u16,
    /// may poll the preferred task even though it was not woken
    pub spurious: bool,
    /// prefer advancing the virtual clock to the next event
    pub advance: bool,
}

#[derive(Clone, Copy, Debug, PartialEq, Eq, Serialize, Deserialize)]
pub enum Fault {
    /// drop the task's future right after its k-th `Pending` (0 = before its first poll)
    CancelAfterPending { task: usize, k: u32 },
    /// `timeout(d, eval)`: drop the task if unfinished `after` virtual ns after its start
    Deadline { task: usize, after: u64 },
}

#[derive(Clone, Debug, PartialEq, Serialize, Deserialize)]
pub struct ExecSpec {
    /// a new waker object on every poll; wakers of earlier polls are dead
    pub fresh_waker: bool,
    /// OS worker threads for the lock-step pool (1 = plain single-thread executor)
    pub workers: u8,
    /// worker preferred for step i (lock-step pool only)
    pub worker_picks: Vec<u8>,
    pub max_steps: u32,
    /// priority scheduling (PCT style): when non-empty, the woken task with the highest priority is
    /// polled (instead of the pick's preference); index = task
    #[serde(default)]
    pub priorities: Vec<u32>,
    /// priority change points: at global step `.0` the task being polled drops to priority `.1`
    #[serde(default)]
    pub prio_changes: Vec<(u32, u32)>,
}

impl Default for ExecSpec {
    fn default() -> Self {
        ExecSpec { fresh_waker: false, workers: 1, worker_picks: vec![], max_steps: 2000, priorities: vec![], prio_changes: vec![] }
    }
}

#[derive(Clone, Debug, PartialEq, Serialize, Deserialize)]
pub struct Scenario {
    pub property: String,
    /// rules built from text through `Rule::parse` instead of the constructors
    pub text_build: bool,
    pub rules: Vec<RuleSpec>,
    pub functions: Vec<FnSpec>,
    pub symbols: Vec<(String, XV)>,
    pub inputs: Vec<InputSpec>,
    pub tasks: Vec<TaskSpec>,
    pub behaviour: Vec<Beh>,
    pub exec: ExecSpec,
    pub picks: Vec<Pick>,
    pub faults: Vec<Fault>,
}

impl Scenario {
    pub fn new(property: &str) -> Self {
        Scenario {
            property: property.to_string(),
            text_build: false,
            rules: vec![],
            functions: vec![],
            symbols: vec![],
            inputs: vec![],
            tasks: vec![],
            behaviour: vec![],
            exec: ExecSpec::default(),
            picks: vec![],
            faults: vec![],
        }
    }

    /// The same world, one task alone, no suspensions, no faults — what
    /// "evaluated on its own" means for the differential oracles.
    pub fn solo(&self, task: usize) -> Scenario {
        let mut s = self.clone();
        let mut t = self.tasks[task].clone();
        t.start = Start::Now;
        s.tasks = vec![t];
        s.behaviour.clear();
        s.picks.clear();
        s.faults.clear();
        s.exec = ExecSpec::default();
        s
    }
}

//! C15 — a ruleset never holds duplicate or ill-formed rule and function
//! names. Seeded builder-call histories against a small reference model of the
//! builder, then probe evaluations of the built ruleset in the simulator.

use crate::exec::{drive, install_panic_hook, intern, Built, Input, LocalHost, TaskEnd};
use crate::prop::{Counters, Verdict};
use crate::rng::{combine, hash_str, Rng};
use crate::spec::*;
use crate::summary::{err_sum, Res, TaskResult};
use crate::world::{ProbeFn, World};
use crate::xv::XV;
use reval::prelude::*;
use serde::{Deserialize, Serialize};
use std::collections::BTreeMap;
use std::sync::Arc;

#[derive(Clone, Debug, PartialEq, Serialize, Deserialize)]
pub enum BOp {
    Rule(String, i64),
    Rules(Vec<(String, i64)>),
    /// `with_function`
    Func(String, i64),
    /// `with_functions` (boxed)
    Funcs(Vec<(String, i64)>),
    Symbol(String, i64),
    /// `with_symbols(Symbols)`, the `Symbols` built by 0 = insert, 1 = append, 2 = From
    Symbols(u8, Vec<(String, i64)>),
}

#[derive(Clone, Debug, PartialEq, Serialize, Deserialize)]
pub struct History {
    pub ops: Vec<BOp>,
    /// probe calls of the final evaluation suspend (seeded) when set
    pub suspend_seed: Option<u64>,
}

pub const RESERVED: [&str; 38] = [
    "and", "or", "if", "then", "else", "is_some", "is_none", "some", "int", "float", "dec", "true", "false", "none",
    "contains", "in", "to_upper", "to_lower", "uppercase", "lowercase", "starts", "ends", "trim", "round", "floor",
    "fract", "date_time", "datetime", "duration", "year", "month", "week", "day", "hour", "minute", "second", "key",
    "val",
];

/// identifiers every reading accepts (and that are unlikely ever to become keywords)
pub const GOOD_FN: [&str; 18] = [
    "fn_a", "probe1", "_x1", "a_b_c", "X9", "zz_top", "__w", "q",
    // identifiers that merely contain, start or end with a reserved word
    "iffy", "android", "or_else", "int2", "key1", "valid", "my_if", "x_and_y", "trimmed", "a_",
];
/// near-identifiers every reading refuses
pub const BAD_FN: [&str; 20] = [
    "1a", "a-b", "a b", "_-x", "_ a", "a.b", "", "a\u{a0}b", "a\u{2013}b", "\u{1F600}", "_.", "9", "-", "a(", " a", "a ",
    "_\u{1F600}", "_a-", "a\tb", "_(",
];
/// don't-care: the code follows UAX #31, the grammar's IDENT is ASCII-only; the statement does not choose
pub const DONTCARE_FN: [&str; 5] = ["_", "\u{e9}", "\u{540d}\u{524d}", "_\u{e9}", "a\u{e9}"];
pub const RULE_NAMES: [&str; 7] = ["a", "A", "a ", "b", "rule one", "", "B"];
pub const SYM_NAMES: [&str; 4] = ["s1", "s2", "limit", "S1"];

#[derive(Clone, Copy, PartialEq, Debug)]
enum NameClass {
    Reserved,
    MustAccept,
    MustRefuse,
    DontCare,
}

fn classify(name: &str) -> NameClass {
    if RESERVED.contains(&name) {
        return NameClass::Reserved;
    }
    if name.is_empty() {
        return NameClass::MustRefuse;
    }
    if name == "_" {
        return NameClass::DontCare;
    }
    if name.is_ascii() {
        let mut ch = name.chars();
        let first = ch.next().unwrap();
        let ok = (first.is_ascii_alphabetic() || first == '_') && ch.all(|c| c.is_ascii_alphanumeric() || c == '_');
        return if ok { NameClass::MustAccept } else { NameClass::MustRefuse };
    }
    // non-ASCII: a name that is an identifier under UAX #31 (the reading the code follows) but not
    // under the grammar's ASCII-only IDENT is a don't-care; a name that is an identifier under
    // neither reading (e.g. one that starts with a combining mark or a middle dot) must be refused
    use unicode_xid::UnicodeXID;
    let mut ch = name.chars();
    let first = ch.next().unwrap();
    if (first == '_' || first.is_xid_start()) && ch.all(|c| c.is_xid_continue()) {
        NameClass::DontCare
    } else {
        NameClass::MustRefuse
    }
}

/// characters random names are spelled from: identifier characters, near misses, and the
/// first-character classes that differ between "may start" and "may continue" an identifier
const PALETTE: [char; 34] = [
    // "other number" characters: alphanumeric for `char`, but no identifier characters
    '\u{b2}', '\u{bd}', '\u{2460}', '\u{94d}',
    'a', 'b', 'Z', '_', '_', '1', '9', 'x', 'q', '0', ' ', '-', '.', '(', '\t', '\u{e9}', '\u{540d}', '\u{301}', '\u{b7}',
    '\u{203f}', '\u{2163}', '\u{3007}', '\u{200d}', '\u{1F600}', '\u{a0}', '\u{2013}', '$', '\'', 'k', 'e',
];

fn random_name(rng: &mut Rng) -> String {
    let n = 1 + rng.usize(5);
    (0..n).map(|_| *rng.pick(&PALETTE)).collect()
}

/// Growth-and-sweep histories: tables grown well past small sizes, then every name tried again.
fn generate_bulk(rng: &mut Rng, thorough: bool) -> History {
    // mostly tens of names; rarely (thorough) well over a thousand
    let max = if thorough && rng.chance(1, 20) { 1500 } else if thorough { 300 } else { 90 };
    let n = 10 + rng.usize(max);
    let mut uid = 5000;
    let mut next = || {
        uid += 1;
        uid
    };
    let mut ops = vec![];
    let kind = rng.below(4); // 0 rules, 1 functions, 2 symbols, 3 mixed
    let mut rule_names: Vec<String> = vec![];
    let mut fn_names: Vec<String> = vec![];
    // growth
    let mut i = 0;
    while i < n {
        let batch = if rng.chance(1, 3) { 1 + rng.usize(40.min(n - i)) } else { 1 };
        let k = if kind == 3 { rng.below(3) } else { kind };
        match k {
            0 => {
                let names: Vec<(String, i64)> = (0..batch).map(|j| (format!("bulk rule {}", i + j), next())).collect();
                rule_names.extend(names.iter().map(|x| x.0.clone()));
                if batch == 1 { ops.push(BOp::Rule(names[0].0.clone(), names[0].1)) } else { ops.push(BOp::Rules(names)) }
            }
            1 => {
                let names: Vec<(String, i64)> = (0..batch).map(|j| (format!("bulk_fn_{}", i + j), next())).collect();
                fn_names.extend(names.iter().map(|x| x.0.clone()));
                if batch == 1 { ops.push(BOp::Func(names[0].0.clone(), names[0].1)) } else { ops.push(BOp::Funcs(names)) }
            }
            _ => {
                // tables of very different sizes over one pool of 60 names: overlaps are certain
                let names: Vec<(String, i64)> = (0..batch).map(|_| (format!("bulk_sym_{}", rng.below(60)), next())).collect();
                if batch == 1 { ops.push(BOp::Symbol(names[0].0.clone(), names[0].1)) } else { ops.push(BOp::Symbols(rng.below(3) as u8, names)) }
            }
        }
        i += batch;
    }
    // sweep: every name once more, in random order (each must be refused); a few inside batches
    let mut sweep: Vec<(bool, String)> = rule_names.iter().map(|n| (true, n.clone())).chain(fn_names.iter().map(|n| (false, n.clone()))).collect();
    for i in (1..sweep.len()).rev() {
        let j = rng.usize(i + 1);
        sweep.swap(i, j);
    }
    sweep.truncate(if thorough { 120 } else { 50 });
    for (is_rule, name) in sweep {
        let fresh = next();
        match (is_rule, rng.chance(1, 4)) {
            (true, false) => ops.push(BOp::Rule(name, fresh)),
            (true, true) => ops.push(BOp::Rules(vec![(format!("fresh rule {fresh}"), fresh), (name, next())])),
            (false, false) => ops.push(BOp::Func(name, fresh)),
            (false, true) => ops.push(BOp::Funcs(vec![(format!("fresh_fn_{fresh}"), fresh), (name, next())])),
        }
    }
    History { ops, suspend_seed: None }
}

pub fn generate(seed: u64, idx: u64, thorough: bool) -> History {
    let mut rng = Rng::new(seed);
    if idx >= 200 && rng.chance(1, 10) {
        return generate_bulk(&mut rng, thorough);
    }
    // now and then a long history with many distinct names (capacity-like limits would show here)
    let long = rng.chance(1, 12);
    let n = if long { 20 + rng.usize(60) } else { 1 + rng.usize(12) };
    let mut ops = vec![];
    let mut uid = 1000;
    let mut next = || {
        uid += 1;
        uid
    };
    // every reserved word through both entry points, enumerated over the first indices
    let forced: Option<(String, bool)> = if idx < 2 * RESERVED.len() as u64 {
        Some((RESERVED[(idx / 2) as usize].to_string(), idx % 2 == 0))
    } else if idx < 2 * (RESERVED.len() + BAD_FN.len()) as u64 {
        let j = idx - 2 * RESERVED.len() as u64;
        Some((BAD_FN[(j / 2) as usize].to_string(), j % 2 == 0))
    } else {
        None
    };
    let forced_at = rng.usize(n);
    let fn_name = |rng: &mut Rng| -> String {
        match rng.below(10) {
            0 | 1 | 2 | 3 | 4 => rng.pick(&GOOD_FN).to_string(),
            5 => rng.pick(&RESERVED).to_string(),
            6 | 7 => rng.pick(&BAD_FN).to_string(),
            8 => rng.pick(&DONTCARE_FN).to_string(),
            _ => random_name(rng),
        }
    };
    for i in 0..n {
        if i == forced_at {
            if let Some((name, single)) = &forced {
                if *single {
                    ops.push(BOp::Func(name.clone(), next()));
                } else {
                    let mut v = vec![];
                    if rng.chance(1, 2) {
                        v.push((rng.pick(&GOOD_FN).to_string(), next()));
                    }
                    v.push((name.clone(), next()));
                    ops.push(BOp::Funcs(v));
                }
                continue;
            }
        }
        if long && rng.chance(2, 3) {
            // mostly fresh names, so that the tables really grow
            let id = next();
            match rng.below(3) {
                0 => ops.push(BOp::Rule(format!("bulk rule {}", rng.below(60)), id)),
                1 => ops.push(BOp::Func(format!("bulk_fn_{}", rng.below(60)), id)),
                _ => ops.push(BOp::Symbol(format!("bulk_sym_{}", rng.below(40)), id)),
            }
            continue;
        }
        match rng.below(11) {
            0 | 1 | 2 => ops.push(BOp::Rule(rng.pick(&RULE_NAMES).to_string(), next())),
            3 => {
                let k = rng.usize(4);
                ops.push(BOp::Rules((0..k).map(|_| (rng.pick(&RULE_NAMES).to_string(), next())).collect()));
            }
            4 | 5 | 6 => ops.push(BOp::Func(fn_name(&mut rng), next())),
            7 => {
                let k = rng.usize(4);
                ops.push(BOp::Funcs((0..k).map(|_| (fn_name(&mut rng), next())).collect()));
            }
            8 | 9 => {
                let v = if rng.chance(1, 4) { -1 - rng.below(7) as i64 } else { next() };
                ops.push(BOp::Symbol(rng.pick(&SYM_NAMES).to_string(), v))
            }
            _ => {
                let k = rng.usize(4);
                let via = rng.below(3) as u8;
                ops.push(BOp::Symbols(via, (0..k).map(|_| (rng.pick(&SYM_NAMES).to_string(), if rng.chance(1, 5) { -1 - rng.below(7) as i64 } else { next() })).collect()));
            }
        }
    }
    History { ops, suspend_seed: if rng.chance(1, 3) { Some(rng.next_u64()) } else { None } }
}

pub fn candidates(h: &History) -> Vec<History> {
    let mut out = vec![];
    for i in 0..h.ops.len() {
        if h.ops.len() > 1 {
            let mut n = h.clone();
            n.ops.remove(i);
            out.push(n);
        }
        match &h.ops[i] {
            BOp::Rules(v) | BOp::Funcs(v) | BOp::Symbols(_, v) if !v.is_empty() => {
                for j in 0..v.len() {
                    let mut n = h.clone();
                    match &mut n.ops[i] {
                        BOp::Rules(v) | BOp::Funcs(v) | BOp::Symbols(_, v) => {
                            v.remove(j);
                        }
                        _ => {}
                    }
                    out.push(n);
                }
            }
            _ => {}
        }
    }
    if h.suspend_seed.is_some() {
        let mut n = h.clone();
        n.suspend_seed = None;
        out.push(n);
    }
    out
}

/// The value registered for symbol id `v`: the id itself, except for a few ids that stand for
/// values which are `==` to each other but differently represented (the most recently registered
/// *representation* is what the symbol must resolve to).
pub fn sym_value(v: i64) -> Value {
    match v {
        -1 => Value::Float(0.0),
        -2 => Value::Float(-0.0),
        -3 => Value::Decimal(rust_decimal::Decimal::new(10, 1)),
        -4 => Value::Decimal(rust_decimal::Decimal::new(100, 2)),
        -5 => Value::None,
        -6 => Value::Vec(vec![Value::Float(-0.0)]),
        -7 => Value::Vec(vec![Value::Float(0.0)]),
        other => Value::Int(other as i128),
    }
}

// ------------------------------------------------------------- model + run

#[derive(Default, Clone)]
struct Model {
    rules: Vec<(String, i64)>,
    functions: BTreeMap<String, i64>,
    symbols: BTreeMap<String, i64>,
}

fn unique_rule(name: &str, uid: i64) -> Rule {
    Rule::new(name.to_string(), BTreeMap::new(), Expr::value(uid as i128))
}

struct Live {
    world: Arc<World>,
    fns: Vec<FnSpec>,
}

impl Live {
    fn probe(&mut self, name: &str, inst: i64) -> ProbeFn {
        let idx = self.fns.len();
        self.fns.push(FnSpec::new(name, false, ScriptOut::Ok(XV::I(inst))));
        ProbeFn { world: self.world.clone(), idx, name: intern(name), cacheable: false }
    }
}

fn apply(b: Builder, op: &BOp, live: &mut Live) -> Result<Builder, reval::Error> {
    match op {
        BOp::Rule(n, uid) => b.with_rule(unique_rule(n, *uid)),
        BOp::Rules(v) => b.with_rules(v.iter().map(|(n, u)| unique_rule(n, *u)).collect::<Vec<_>>()),
        BOp::Func(n, inst) => {
            let p = live.probe(n, *inst);
            b.with_function(p)
        }
        BOp::Funcs(v) => {
            let boxed: Vec<Box<dyn UserFunction + Send + Sync + 'static>> =
                v.iter().map(|(n, i)| Box::new(live.probe(n, *i)) as Box<dyn UserFunction + Send + Sync>).collect();
            b.with_functions(boxed)
        }
        BOp::Symbol(n, v) => Ok(b.with_symbol(n.clone(), sym_value(*v))),
        BOp::Symbols(via, v) => {
            let items: Vec<(String, Value)> = v.iter().map(|(n, x)| (n.clone(), sym_value(*x))).collect();
            let syms = match via {
                0 => {
                    let mut s = Symbols::default();
                    for (k, val) in items {
                        s.insert(k, val);
                    }
                    s
                }
                1 => {
                    let mut s = Symbols::default();
                    s.append(items);
                    s
                }
                _ => Symbols::from(items),
            };
            b.with_symbols(syms)
        }
    }
}

/// What the statement demands of one call, given the accepted prefix.
enum Expect {
    Accept,
    /// refusal carrying one of these (class, name) pairs — a batch may have several offenders
    Refuse(Vec<(&'static str, String)>),
    /// a don't-care name: either way, but a refusal must carry the name
    Either(String),
}

fn expect(m: &Model, op: &BOp) -> Expect {
    match op {
        BOp::Rule(n, _) => {
            if m.rules.iter().any(|(r, _)| r == n) {
                Expect::Refuse(vec![("DuplicateRuleName", n.clone())])
            } else {
                Expect::Accept
            }
        }
        BOp::Rules(v) => {
            // every name that exists already or occurs twice in the batch is an offender;
            // which of several offenders a refusal names is not fixed by the statement
            let mut offenders = vec![];
            for (i, (n, _)) in v.iter().enumerate() {
                let dup = m.rules.iter().any(|(r, _)| r == n) || v[..i].iter().any(|(o, _)| o == n);
                if dup && !offenders.iter().any(|(_, o): &(&str, String)| o == n) {
                    offenders.push(("DuplicateRuleName", n.clone()));
                }
            }
            if offenders.is_empty() {
                Expect::Accept
            } else {
                Expect::Refuse(offenders)
            }
        }
        BOp::Func(n, _) => expect_fn(&m.functions.keys().cloned().collect::<Vec<_>>(), n),
        BOp::Funcs(v) => {
            let mut seen: Vec<String> = m.functions.keys().cloned().collect();
            let mut offenders = vec![];
            let mut dontcare = None;
            for (n, _) in v {
                match expect_fn(&seen, n) {
                    Expect::Accept => seen.push(n.clone()),
                    Expect::Refuse(mut o) => offenders.append(&mut o),
                    Expect::Either(n) => {
                        dontcare.get_or_insert(n);
                    }
                }
            }
            if let Some(n) = dontcare {
                // a don't-care name inside a list leaves the whole call undetermined
                Expect::Either(n)
            } else if offenders.is_empty() {
                Expect::Accept
            } else {
                Expect::Refuse(offenders)
            }
        }
        BOp::Symbol(..) | BOp::Symbols(..) => Expect::Accept,
    }
}

fn expect_fn(present: &[String], n: &str) -> Expect {
    match classify(n) {
        NameClass::Reserved | NameClass::MustRefuse => Expect::Refuse(vec![("InvalidFunctionName", n.to_string())]),
        NameClass::MustAccept => {
            if present.iter().any(|p| p == n) {
                Expect::Refuse(vec![("DuplicateFunctionName", n.to_string())])
            } else {
                Expect::Accept
            }
        }
        NameClass::DontCare => {
            if present.iter().any(|p| p == n) {
                Expect::Refuse(vec![("DuplicateFunctionName", n.to_string())])
            } else {
                Expect::Either(n.to_string())
            }
        }
    }
}

fn commit(m: &mut Model, op: &BOp) {
    match op {
        BOp::Rule(n, u) => m.rules.push((n.clone(), *u)),
        BOp::Rules(v) => m.rules.extend(v.iter().cloned()),
        BOp::Func(n, i) => {
            m.functions.insert(n.clone(), *i);
        }
        BOp::Funcs(v) => {
            for (n, i) in v {
                m.functions.insert(n.clone(), *i);
            }
        }
        BOp::Symbol(n, v) => {
            m.symbols.insert(n.clone(), *v);
        }
        BOp::Symbols(_, v) => {
            for (n, x) in v {
                m.symbols.insert(n.clone(), *x);
            }
        }
    }
}

fn describe(op: &BOp) -> String {
    match op {
        BOp::Rule(n, _) => format!("with_rule({n:?})"),
        BOp::Rules(v) => format!("with_rules({:?})", v.iter().map(|x| &x.0).collect::<Vec<_>>()),
        BOp::Func(n, _) => format!("with_function({n:?})"),
        BOp::Funcs(v) => format!("with_functions({:?})", v.iter().map(|x| &x.0).collect::<Vec<_>>()),
        BOp::Symbol(n, _) => format!("with_symbol({n:?})"),
        BOp::Symbols(via, v) => format!("with_symbols[{via}]({:?})", v.iter().map(|x| &x.0).collect::<Vec<_>>()),
    }
}

pub fn check(h: &History, c: &mut Counters) -> Verdict {
    install_panic_hook();
    let world = World::new(vec![], &[]);
    let mut live = Live { world: world.clone(), fns: vec![] };
    let mut model = Model::default();
    let mut accepted: Vec<BOp> = vec![];
    let mut b = ruleset();
    let mut sig = 0u64;
    for op in &h.ops {
        let want = expect(&model, op);
        c.bump("builder.calls");
        match apply(b, op, &mut live) {
            Ok(nb) => {
                b = nb;
                match want {
                    Expect::Accept | Expect::Either(_) => {
                        if matches!(want, Expect::Either(_)) {
                            c.bump("hit.dont_care_name_accepted");
                        }
                        commit(&mut model, op);
                        accepted.push(op.clone());
                        sig = combine(sig, 1);
                    }
                    Expect::Refuse(offenders) => {
                        let (class, name) = offenders[0].clone();
                        let clause = match class {
                            "DuplicateRuleName" => "duplicate-rule-accepted",
                            "DuplicateFunctionName" => "duplicate-function-accepted",
                            _ if RESERVED.contains(&name.as_str()) => "reserved-word-accepted-as-function-name",
                            _ => "ill-formed-function-name-accepted",
                        };
                        return Verdict::violation(
                            clause,
                            format!("{name:?} | {} succeeded after {} accepted calls; it must be refused with {class}({name:?})", describe(op), accepted.len()),
                        );
                    }
                }
            }
            Err(e) => {
                c.bump("fault.builder_refusal");
                let es = err_sum(&e);
                match want {
                    Expect::Accept => {
                        return Verdict::violation(
                            "valid-call-refused",
                            format!("{} | refused with {es:?} after {} accepted calls although nothing of that name was added before and the name is a well-formed identifier", describe(op), accepted.len()),
                        );
                    }
                    Expect::Refuse(offenders) => {
                        let Some((class, name)) = offenders.iter().find(|(_, n)| es.payload.first() == Some(n)).cloned() else {
                            return Verdict::violation(
                                "refusal-reports-other-name",
                                format!("{} | refused with {es:?}; the offending name(s): {:?}", describe(op), offenders.iter().map(|o| &o.1).collect::<Vec<_>>()),
                            );
                        };
                        if es.class != class {
                            return Verdict::violation(
                                "refusal-of-wrong-kind",
                                format!("{} | refused with {es:?}; expected {class}({name:?})", describe(op)),
                            );
                        }
                        if offenders.len() > 1 {
                            c.bump("hit.batch_with_several_offenders");
                        }
                        c.bump(&format!("hit.refused.{class}"));
                        if RESERVED.contains(&name.as_str()) {
                            c.bump("hit.reserved_word_refused");
                        }
                    }
                    Expect::Either(name) => {
                        c.bump("hit.dont_care_name_refused");
                        if !es.payload.iter().any(|p| p.contains(&name)) && es.payload.first().is_some() {
                            // a refusal inside a list may name an element after the don't-care one; only a
                            // refusal that names nothing from the call would be wrong — not judged here
                        }
                    }
                }
                sig = combine(sig, 2 + hash_str(&es.class));
                // the refused call consumed the builder: rebuild the accepted prefix and go on
                live = Live { world: world.clone(), fns: vec![] };
                b = ruleset();
                for a in &accepted {
                    b = match apply(b, a, &mut live) {
                        Ok(nb) => nb,
                        Err(e) => {
                            return Verdict::violation(
                                "accepted-prefix-not-repeatable",
                                format!("{} | was accepted once, but replaying the accepted calls on a fresh builder fails with {:?}", describe(a), err_sum(&e)),
                            )
                        }
                    };
                }
            }
        }
    }

    // ---- probe rules for every name of the pools (and every name the history used)
    let mut fn_names: Vec<String> = vec![];
    let mut sym_names: Vec<String> = vec![];
    for n in GOOD_FN.iter().chain(BAD_FN.iter()).chain(DONTCARE_FN.iter()).chain(RESERVED.iter().take(6)) {
        fn_names.push(n.to_string());
    }
    for n in SYM_NAMES.iter() {
        sym_names.push(n.to_string());
    }
    for op in &h.ops {
        match op {
            BOp::Func(n, _) => fn_names.push(n.clone()),
            BOp::Funcs(v) => fn_names.extend(v.iter().map(|x| x.0.clone())),
            BOp::Symbol(n, _) => sym_names.push(n.clone()),
            BOp::Symbols(_, v) => sym_names.extend(v.iter().map(|x| x.0.clone())),
            _ => {}
        }
    }
    fn_names.sort();
    fn_names.dedup();
    sym_names.sort();
    sym_names.dedup();
    let mut all_rules: Vec<Rule> = model.rules.iter().map(|(n, u)| unique_rule(n, *u)).collect();
    let nrules = all_rules.len();
    for (i, n) in fn_names.iter().enumerate() {
        let r = Rule::new(format!("\u{1}probe fn {i}"), BTreeMap::new(), Expr::func(n.clone(), Expr::none_value()));
        all_rules.push(r.clone());
        b = match b.with_rule(r) {
            Ok(nb) => nb,
            Err(e) => return Verdict::violation("valid-call-refused", format!("probe rule | refused with {:?}", err_sum(&e))),
        };
    }
    for (i, n) in sym_names.iter().enumerate() {
        let r = Rule::new(format!("\u{1}probe sym {i}"), BTreeMap::new(), Expr::symbol(n));
        all_rules.push(r.clone());
        b = match b.with_rule(r) {
            Ok(nb) => nb,
            Err(e) => return Verdict::violation("valid-call-refused", format!("probe rule | refused with {:?}", err_sum(&e))),
        };
    }
    let rs = b.build();

    // ---- evaluate the built ruleset in the simulator
    let mut scn = Scenario::new("C15");
    scn.tasks = vec![TaskSpec { tag: 0, entry: Entry::RuleSet, input: 0, start: Start::Now }];
    scn.functions = live.fns.clone();
    if let Some(s) = h.suspend_seed {
        let mut r = Rng::new(s);
        scn.behaviour = crate::c05::random_behaviour(&mut r, 0, 40, 500, 2);
    }
    scn.exec.max_steps = 2000;
    // the world was created before the function table was known: give it the table now
    {
        let mut w = world.lock();
        w.fns = live.fns.clone();
    }
    let world2 = world.clone();
    world2.set_behaviour(&scn.behaviour);
    let exprs: Vec<Expr> = all_rules.iter().map(|r| r.expr().clone()).collect();
    let built = Built { ruleset: Arc::new(rs), rules: Arc::new(all_rules), exprs: Arc::new(exprs) };
    let mut host = LocalHost::new(&built, 1);
    let inputs = vec![Arc::new(Input::Val(Value::None))];
    let out = drive(&scn, &world, &mut host, &inputs);
    c.absorb_run(&out);
    let outcomes = match &out.ends[0] {
        TaskEnd::Finished(TaskResult::Outcomes(o)) => o,
        TaskEnd::Finished(other) => return Verdict::skip(format!("evaluate_value returned {other:?} (C09)")),
        TaskEnd::ForeignPanic(m) => return Verdict::skip(format!("panic during evaluation: {m}")),
        TaskEnd::Unfinished(_) => return Verdict::skip("evaluation did not finish (C12)".into()),
        other => return Verdict::harness(format!("C15 probe evaluation ended as {other:?}")),
    };
    // exactly the accepted rules, in the order added, then the probes
    let got_rules: Vec<(String, Res)> = outcomes.iter().map(|o| (o.rule_name.clone(), o.value.clone())).collect();
    let history_part: Vec<&(String, Res)> = got_rules.iter().filter(|(n, _)| !n.starts_with('\u{1}')).collect();
    let want_part: Vec<(String, Res)> = model.rules.iter().map(|(n, u)| (n.clone(), Res::Ok(format!("i{u}")))).collect();
    if history_part.len() != want_part.len() || history_part.iter().zip(want_part.iter()).any(|(a, b)| **a != *b) {
        return Verdict::violation(
            "built-rules-differ-from-accepted",
            format!(
                "accepted rules {:?} | the built ruleset evaluates {:?}",
                want_part.iter().map(|(n, r)| format!("{n:?}={r:?}")).collect::<Vec<_>>(),
                history_part.iter().map(|(n, r)| format!("{n:?}={r:?}")).collect::<Vec<_>>()
            ),
        );
    }
    if outcomes.len() != nrules + fn_names.len() + sym_names.len() {
        return Verdict::skip("outcome count differs from rule count (C09)".into());
    }
    for (i, n) in fn_names.iter().enumerate() {
        let got = &outcomes[nrules + i].value;
        match model.functions.get(n) {
            Some(inst) => {
                if *got != Res::Ok(format!("i{inst}")) {
                    return Verdict::violation(
                        "accepted-function-not-invocable",
                        format!("{n:?} | accepted with instance {inst}; calling it through the built ruleset gives {got:?}"),
                    );
                }
                c.bump("hit.accepted_function_invoked");
            }
            None => {
                let ok = matches!(got, Res::Err(e) if e.class == "UnknownUserFunction" && e.payload.first() == Some(n));
                if !ok {
                    return Verdict::violation(
                        "never-accepted-function-invocable",
                        format!("{n:?} | never accepted by the builder; calling it through the built ruleset gives {got:?}"),
                    );
                }
            }
        }
    }
    for (i, n) in sym_names.iter().enumerate() {
        let got = &outcomes[nrules + fn_names.len() + i].value;
        match model.symbols.get(n) {
            Some(v) => {
                if *got != Res::Ok(crate::xv::canon(&sym_value(*v))) {
                    return Verdict::violation(
                        "symbol-not-most-recent",
                        format!("symbol {n:?} | most recently registered value {}; the built ruleset resolves it to {got:?}", crate::xv::canon(&sym_value(*v))),
                    );
                }
                c.bump("hit.symbol_resolved");
            }
            None => {
                let ok = matches!(got, Res::Err(e) if e.class == "InvalidSymbol" && e.payload.first() == Some(n));
                if !ok {
                    return Verdict::violation("unregistered-symbol-resolves", format!("symbol {n:?} | never registered; resolves to {got:?}"));
                }
            }
        }
    }
    let overwritten = h.ops.iter().filter(|o| matches!(o, BOp::Symbol(..) | BOp::Symbols(..))).count() > model.symbols.len();
    if overwritten {
        c.bump("hit.symbol_overwritten");
    }
    sig = combine(sig, model.rules.len() as u64 * 64 + model.functions.len() as u64 * 8 + model.symbols.len() as u64);
    Verdict::pass(if h.ops.len() >= 2 { Some(sig) } else { None })
}

//! C15 — placeholder (filled in below in the build order)
use serde::{Deserialize, Serialize};
#[derive(Clone, Debug, PartialEq, Serialize, Deserialize)]
pub struct History {}
pub fn candidates(_h: &History) -> Vec<History> {
    vec![]
}

//! Harness-side expression tree `X` (what a scenario record spells), its
//! conversion to `reval::Expr` through the public constructors, and the
//! harness's own fully parenthesised text printer (never reval's `Display`).

use crate::xv::XV;
use reval::expr::{Expr, Index};
use serde::{Deserialize, Serialize};
use std::collections::BTreeMap;

#[derive(Clone, Copy, Debug, PartialEq, Eq, Hash, PartialOrd, Ord, Serialize, Deserialize)]
pub enum UnOp {
    Not,
    Neg,
    IsSome,
    IsNone,
    Int,
    Float,
    Dec,
    DateTime,
    Duration,
    Upper,
    Lower,
    Trim,
    Round,
    Floor,
    Fract,
    Year,
    Month,
    Week,
    Day,
    Hour,
    Minute,
    Second,
}

pub const ALL_UNOPS: [UnOp; 22] = [
    UnOp::Not,
    UnOp::Neg,
    UnOp::IsSome,
    UnOp::IsNone,
    UnOp::Int,
    UnOp::Float,
    UnOp::Dec,
    UnOp::DateTime,
    UnOp::Duration,
    UnOp::Upper,
    UnOp::Lower,
    UnOp::Trim,
    UnOp::Round,
    UnOp::Floor,
    UnOp::Fract,
    UnOp::Year,
    UnOp::Month,
    UnOp::Week,
    UnOp::Day,
    UnOp::Hour,
    UnOp::Minute,
    UnOp::Second,
];

#[derive(Clone, Copy, Debug, PartialEq, Eq, Hash, PartialOrd, Ord, Serialize, Deserialize)]
pub enum BinOp {
    Mult,
    Div,
    Rem,
    Add,
    Sub,
    Eq,
    Neq,
    Gt,
    Gte,
    Lt,
    Lte,
    And,
    Or,
    BitAnd,
    BitOr,
    BitXor,
    Contains,
}

pub const ALL_BINOPS: [BinOp; 17] = [
    BinOp::Mult,
    BinOp::Div,
    BinOp::Rem,
    BinOp::Add,
    BinOp::Sub,
    BinOp::Eq,
    BinOp::Neq,
    BinOp::Gt,
    BinOp::Gte,
    BinOp::Lt,
    BinOp::Lte,
    BinOp::And,
    BinOp::Or,
    BinOp::BitAnd,
    BinOp::BitOr,
    BinOp::BitXor,
    BinOp::Contains,
];

#[derive(Clone, Debug, PartialEq, Serialize, Deserialize)]
pub enum XIdx {
    Field(String),
    Pos(usize),
}

#[derive(Clone, Debug, PartialEq, Serialize, Deserialize)]
pub enum X {
    Val(XV),
    Ref(String),
    Sym(String),
    Call(String, Box<X>),
    Idx(Box<X>, XIdx),
    If(Box<X>, Box<X>, Box<X>),
    /// entries in *insertion* order as generated; keys are unique
    Map(Vec<(String, X)>),
    Vec(Vec<X>),
    Un(UnOp, Box<X>),
    Bin(BinOp, Box<X>, Box<X>),
    /// `x in y` — only meaningful for text builds; built as contains(y, x)
    In(Box<X>, Box<X>),
    /// sugar: n nested applications of a unary operator (kept flat so that records stay shallow)
    Tower(UnOp, u32, Box<X>),
    /// sugar: left-nested chain ((a op b) op c) op …
    Chain(BinOp, Vec<X>),
    /// sugar: the list [f(i<from>), f(i<from+1>), … ] of `n` calls
    ManyCalls(String, i64, u32),
}

impl X {
    pub fn val(v: XV) -> X {
        X::Val(v)
    }
    pub fn int(i: i64) -> X {
        X::Val(XV::I(i))
    }
    pub fn call(name: &str, arg: X) -> X {
        X::Call(name.to_string(), Box::new(arg))
    }
    pub fn un(op: UnOp, a: X) -> X {
        X::Un(op, Box::new(a))
    }
    pub fn bin(op: BinOp, a: X, b: X) -> X {
        X::Bin(op, Box::new(a), Box::new(b))
    }
    pub fn iff(c: X, t: X, e: X) -> X {
        X::If(Box::new(c), Box::new(t), Box::new(e))
    }

    /// Expand `Tower` and `Chain` into plain nodes.
    pub fn desugar(&self) -> X {
        match self {
            X::Tower(op, n, inner) => {
                let mut x = inner.desugar();
                for _ in 0..*n {
                    x = X::un(*op, x);
                }
                x
            }
            X::Chain(op, items) => {
                let mut it = items.iter();
                let mut acc = match it.next() {
                    Some(f) => f.desugar(),
                    None => X::Val(XV::N),
                };
                for i in it {
                    acc = X::bin(*op, acc, i.desugar());
                }
                acc
            }
            X::ManyCalls(f, from, n) => X::Vec((0..*n as i64).map(|i| X::call(f, X::int(from + i))).collect()),
            X::Val(_) | X::Ref(_) | X::Sym(_) => self.clone(),
            X::Call(n, a) => X::Call(n.clone(), Box::new(a.desugar())),
            X::Idx(a, i) => X::Idx(Box::new(a.desugar()), i.clone()),
            X::If(a, b, c) => X::If(Box::new(a.desugar()), Box::new(b.desugar()), Box::new(c.desugar())),
            X::Map(m) => X::Map(m.iter().map(|(k, v)| (k.clone(), v.desugar())).collect()),
            X::Vec(v) => X::Vec(v.iter().map(|x| x.desugar()).collect()),
            X::Un(op, a) => X::Un(*op, Box::new(a.desugar())),
            X::Bin(op, a, b) => X::Bin(*op, Box::new(a.desugar()), Box::new(b.desugar())),
            X::In(a, b) => X::In(Box::new(a.desugar()), Box::new(b.desugar())),
        }
    }

    pub fn has_sugar(&self) -> bool {
        matches!(self, X::Tower(..) | X::Chain(..) | X::ManyCalls(..)) || self.children().into_iter().any(|c| c.has_sugar())
    }

    pub fn node_count(&self) -> usize {
        1 + match self {
            X::Tower(_, _, a) => a.node_count(),
            X::Chain(_, v) => v.iter().map(|x| x.node_count()).sum(),
            X::ManyCalls(..) => 0,
            X::Val(_) | X::Ref(_) | X::Sym(_) => 0,
            X::Call(_, a) | X::Idx(a, _) | X::Un(_, a) => a.node_count(),
            X::If(a, b, c) => a.node_count() + b.node_count() + c.node_count(),
            X::Map(m) => m.iter().map(|(_, x)| x.node_count()).sum(),
            X::Vec(v) => v.iter().map(|x| x.node_count()).sum(),
            X::Bin(_, a, b) | X::In(a, b) => a.node_count() + b.node_count(),
        }
    }

    /// Immediate children, in constructor order.
    pub fn children(&self) -> Vec<&X> {
        match self {
            X::Val(_) | X::Ref(_) | X::Sym(_) | X::ManyCalls(..) => vec![],
            X::Call(_, a) | X::Idx(a, _) | X::Un(_, a) => vec![a],
            X::If(a, b, c) => vec![a, b, c],
            X::Map(m) => m.iter().map(|(_, x)| x).collect(),
            X::Vec(v) => v.iter().collect(),
            X::Bin(_, a, b) | X::In(a, b) => vec![a, b],
            X::Tower(_, _, a) => vec![a],
            X::Chain(_, v) => v.iter().collect(),
        }
    }

    pub fn children_mut(&mut self) -> Vec<&mut X> {
        match self {
            X::Val(_) | X::Ref(_) | X::Sym(_) | X::ManyCalls(..) => vec![],
            X::Call(_, a) | X::Idx(a, _) | X::Un(_, a) => vec![a],
            X::If(a, b, c) => vec![a, b, c],
            X::Map(m) => m.iter_mut().map(|(_, x)| x).collect(),
            X::Vec(v) => v.iter_mut().collect(),
            X::Bin(_, a, b) | X::In(a, b) => vec![a, b],
            X::Tower(_, _, a) => vec![a],
            X::Chain(_, v) => v.iter_mut().collect(),
        }
    }

    /// Short tag naming the node kind (for coverage tables).
    pub fn kind(&self) -> String {
        match self {
            X::Val(_) => "Value".into(),
            X::Ref(_) => "Reference".into(),
            X::Sym(_) => "Symbol".into(),
            X::Call(..) => "Function".into(),
            X::Idx(..) => "Index".into(),
            X::If(..) => "If".into(),
            X::Map(_) => "Map".into(),
            X::Vec(_) => "Vec".into(),
            X::Un(op, _) => format!("{op:?}"),
            X::Bin(op, ..) => format!("{op:?}"),
            X::In(..) => "In".into(),
            X::Tower(op, ..) => format!("Tower{op:?}"),
            X::Chain(op, ..) => format!("Chain{op:?}"),
            X::ManyCalls(..) => "ManyCalls".into(),
        }
    }
}

pub fn un_expr(op: UnOp, a: Expr) -> Expr {
    match op {
        UnOp::Not => Expr::not(a),
        UnOp::Neg => Expr::neg(a),
        UnOp::IsSome => Expr::some(a),
        UnOp::IsNone => Expr::none(a),
        UnOp::Int => Expr::int(a),
        UnOp::Float => Expr::float(a),
        UnOp::Dec => Expr::dec(a),
        UnOp::DateTime => Expr::datetime(a),
        UnOp::Duration => Expr::duration(a),
        UnOp::Upper => Expr::uppercase(a),
        UnOp::Lower => Expr::lowercase(a),
        UnOp::Trim => Expr::trim(a),
        UnOp::Round => Expr::round(a),
        UnOp::Floor => Expr::floor(a),
        UnOp::Fract => Expr::fract(a),
        UnOp::Year => Expr::year(a),
        UnOp::Month => Expr::month(a),
        UnOp::Week => Expr::week(a),
        UnOp::Day => Expr::day(a),
        UnOp::Hour => Expr::hour(a),
        UnOp::Minute => Expr::minute(a),
        UnOp::Second => Expr::second(a),
    }
}

pub fn bin_expr(op: BinOp, a: Expr, b: Expr) -> Expr {
    match op {
        BinOp::Mult => Expr::mult(a, b),
        BinOp::Div => Expr::div(a, b),
        BinOp::Rem => Expr::rem(a, b),
        BinOp::Add => Expr::add(a, b),
        BinOp::Sub => Expr::sub(a, b),
        BinOp::Eq => Expr::eq(a, b),
        BinOp::Neq => Expr::neq(a, b),
        BinOp::Gt => Expr::gt(a, b),
        BinOp::Gte => Expr::gte(a, b),
        BinOp::Lt => Expr::lt(a, b),
        BinOp::Lte => Expr::lte(a, b),
        BinOp::And => Expr::and(a, b),
        BinOp::Or => Expr::or(a, b),
        BinOp::BitAnd => Expr::bitwise_and(a, b),
        BinOp::BitOr => Expr::bitwise_or(a, b),
        BinOp::BitXor => Expr::bitwise_xor(a, b),
        BinOp::Contains => Expr::contains(a, b),
    }
}

/// Build the reval tree through the public constructors.
pub fn to_expr(x: &X) -> Expr {
    match x {
        X::Val(v) => Expr::value(v.to_value()),
        X::Ref(n) => Expr::reff(n),
        X::Sym(n) => Expr::symbol(n),
        X::Call(n, a) => Expr::func(n.clone(), to_expr(a)),
        X::Idx(a, XIdx::Field(f)) => Expr::index(to_expr(a), Index::from(f.as_str())),
        X::Idx(a, XIdx::Pos(p)) => Expr::index(to_expr(a), Index::from(*p)),
        X::If(c, t, e) => Expr::iif(to_expr(c), to_expr(t), to_expr(e)),
        X::Map(m) => Expr::Map(
            m.iter()
                .map(|(k, v)| (k.clone(), to_expr(v)))
                .collect::<BTreeMap<_, _>>(),
        ),
        X::Vec(v) => Expr::Vec(v.iter().map(to_expr).collect()),
        X::Un(op, a) => un_expr(*op, to_expr(a)),
        X::Bin(op, a, b) => bin_expr(*op, to_expr(a), to_expr(b)),
        X::In(item, coll) => Expr::contains(to_expr(coll), to_expr(item)),
        X::Tower(..) | X::Chain(..) | X::ManyCalls(..) => to_expr(&x.desugar()),
    }
}

fn text_string(s: &str, out: &mut String) {
    out.push('"');
    for c in s.chars() {
        match c {
            '"' => out.push_str("\\\""),
            '\\' => out.push_str("\\\\"),
            '\n' => out.push_str("\\n"),
            '\t' => out.push_str("\\t"),
            '\r' => out.push_str("\\r"),
            c => out.push(c),
        }
    }
    out.push('"');
}

fn text_value(v: &XV, out: &mut String) {
    match v {
        XV::N => out.push_str("none"),
        XV::B(b) => out.push_str(if *b { "true" } else { "false" }),
        XV::I(i) => {
            out.push('i');
            out.push_str(&i.to_string());
        }
        XV::F(f) => {
            // the FLOAT token has no sign-less exponent-free restriction; print plain decimal
            out.push('f');
            let s = format!("{f:?}");
            out.push_str(&s);
        }
        XV::D(m, s) => {
            out.push('d');
            out.push_str(&rust_decimal::Decimal::new(*m, *s).to_string());
        }
        XV::S(s) => text_string(s, out),
        // no literal syntax: spelled through the casts (the generator never
        // puts these in expression constants of text-built scenarios)
        XV::T(t) => {
            out.push_str("datetime(i");
            out.push_str(&t.to_string());
            out.push(')');
        }
        XV::U(u) => {
            out.push_str("duration(i");
            out.push_str(&u.to_string());
            out.push(')');
        }
        XV::V(items) => {
            out.push('[');
            for (i, it) in items.iter().enumerate() {
                if i > 0 {
                    out.push_str(", ");
                }
                text_value(it, out);
            }
            out.push(']');
        }
        XV::M(m) => {
            out.push('{');
            for (i, (k, it)) in m.iter().enumerate() {
                if i > 0 {
                    out.push_str(", ");
                }
                out.push_str(k);
                out.push_str(": ");
                text_value(it, out);
            }
            out.push('}');
        }
    }
}

fn un_name(op: UnOp) -> &'static str {
    match op {
        UnOp::Not => "!",
        UnOp::Neg => "-",
        UnOp::IsSome => "is_some",
        UnOp::IsNone => "is_none",
        UnOp::Int => "int",
        UnOp::Float => "float",
        UnOp::Dec => "dec",
        UnOp::DateTime => "datetime",
        UnOp::Duration => "duration",
        UnOp::Upper => "uppercase",
        UnOp::Lower => "lowercase",
        UnOp::Trim => "trim",
        UnOp::Round => "round",
        UnOp::Floor => "floor",
        UnOp::Fract => "fract",
        UnOp::Year => "year",
        UnOp::Month => "month",
        UnOp::Week => "week",
        UnOp::Day => "day",
        UnOp::Hour => "hour",
        UnOp::Minute => "minute",
        UnOp::Second => "second",
    }
}

fn bin_name(op: BinOp) -> &'static str {
    match op {
        BinOp::Mult => "*",
        BinOp::Div => "/",
        BinOp::Rem => "%",
        BinOp::Add => "+",
        BinOp::Sub => "-",
        BinOp::Eq => "==",
        BinOp::Neq => "!=",
        BinOp::Gt => ">",
        BinOp::Gte => ">=",
        BinOp::Lt => "<",
        BinOp::Lte => "<=",
        BinOp::And => "and",
        BinOp::Or => "or",
        BinOp::BitAnd => "&",
        BinOp::BitOr => "|",
        BinOp::BitXor => "^",
        BinOp::Contains => "contains",
    }
}

fn text_into(x: &X, out: &mut String) {
    match x {
        X::Val(v) => text_value(v, out),
        X::Ref(n) => out.push_str(n),
        X::Sym(n) => {
            out.push(':');
            out.push_str(n);
        }
        X::Call(n, a) => {
            out.push_str(n);
            out.push('(');
            text_into(a, out);
            out.push(')');
        }
        X::Idx(a, idx) => {
            out.push('(');
            text_into(a, out);
            out.push_str(").");
            match idx {
                XIdx::Field(f) => out.push_str(f),
                XIdx::Pos(p) => out.push_str(&p.to_string()),
            }
        }
        X::If(c, t, e) => {
            out.push_str("(if (");
            text_into(c, out);
            out.push_str(") then (");
            text_into(t, out);
            out.push_str(") else (");
            text_into(e, out);
            out.push_str("))");
        }
        X::Map(m) => {
            out.push('{');
            for (i, (k, v)) in m.iter().enumerate() {
                if i > 0 {
                    out.push_str(", ");
                }
                out.push_str(k);
                out.push_str(": ");
                text_into(v, out);
            }
            out.push('}');
        }
        X::Vec(v) => {
            out.push('[');
            for (i, it) in v.iter().enumerate() {
                if i > 0 {
                    out.push_str(", ");
                }
                text_into(it, out);
            }
            out.push(']');
        }
        X::Un(op, a) => {
            out.push_str(un_name(*op));
            out.push('(');
            text_into(a, out);
            out.push(')');
        }
        X::Bin(op, a, b) => {
            out.push_str("((");
            text_into(a, out);
            out.push_str(") ");
            out.push_str(bin_name(*op));
            out.push_str(" (");
            text_into(b, out);
            out.push_str("))");
        }
        X::In(item, coll) => {
            out.push_str("((");
            text_into(item, out);
            out.push_str(") in (");
            text_into(coll, out);
            out.push_str("))");
        }
        X::Tower(..) | X::Chain(..) | X::ManyCalls(..) => text_into(&x.desugar(), out),
    }
}

/// Text of an expression in the reval DSL, fully parenthesised.
pub fn to_text(x: &X) -> String {
    let mut s = String::new();
    text_into(x, &mut s);
    s
}

/// True when the tree can be spelled as text that parses back to the same
/// semantics (no datetime/duration constants, no control characters or
/// newlines in strings, only ASCII identifiers).
pub fn text_safe(x: &X) -> bool {
    fn val_ok(v: &XV) -> bool {
        match v {
            XV::T(_) | XV::U(_) => false,
            XV::S(s) => s.chars().all(|c| c != '\n' && c != '\r' && (c as u32) >= 0x20),
            XV::F(f) => f.is_finite() && !format!("{f:?}").contains('e') && *f >= 0.0 || {
                f.is_finite() && !format!("{f:?}").contains('e')
            },
            XV::V(v) => v.iter().all(val_ok),
            XV::M(m) => m.iter().all(|(_, v)| val_ok(v)),
            _ => true,
        }
    }
    (match x {
        X::Val(v) => val_ok(v),
        _ => true,
    }) && x.children().into_iter().all(text_safe)
}

//! The property table of the single-thread simulator.

use crate::driver::{PropDef, Record};
use crate::prop::Verdict;
use crate::rng::run_seed;

const REAL: &[&str] = &[
    "RuleSet::evaluate / evaluate_value",
    "Expr::evaluate, eval_rec and all operator functions",
    "EvalContext",
    "UserFunctions::call and the function cache",
    "Builder, Symbols, Rule",
    "ValueSerializer (evaluate(&T))",
    "lalrpop parser via Rule::parse (text-built runs)",
    "async_trait / async_recursion generated futures",
];
const STUB: &[&str] = &[
    "executor, wakers and scheduling decisions",
    "virtual clock and discrete-event queue",
    "every user function (ProbeFn scripts + fault plan)",
    "input values and input types",
];

fn sim_candidates(rec: &Record, coarse_only: bool) -> Vec<Record> {
    match rec {
        Record::Sim(s) => crate::shrink::candidates_staged(s, coarse_only).into_iter().map(Record::Sim).collect(),
        Record::Builder(h) => crate::c15::candidates(h).into_iter().map(Record::Builder).collect(),
    }
}

pub fn c05_def() -> PropDef {
    PropDef {
        id: "C05",
        generate: |vs, idx, tier| Record::Sim(crate::c05::generate(run_seed(vs, "C05", idx), tier == crate::driver::Tier::Thorough)),
        check: |rec, c| match rec {
            Record::Sim(s) => crate::c05::check(s, c),
            _ => Verdict::harness("wrong record kind".into()),
        },
        candidates: sim_candidates,
        runs_quick: 400_000,
        runs_thorough: 40_000_000,
        level: "exploration",
        rule: "seeded type-directed expressions (<=3 rules, depth<=5, <=12 probes/rule) over all node kinds with call-logging non-cacheable probes and error leaves in every operand position, under seeded suspension schedules; a run is non-trivial when the order model took at least one lazy decision or error cut and at least one probe was invoked; distinct = distinct hashes of (tree shapes, decisions taken, outcome classes, suspension vector), counted as set bits of a 2^25-bit bitmap (a lower bound)",
        assumptions: &[
            "the value of a strict operator applied to already-evaluated constants is taken from reval itself (order, laziness and exactly-once are modelled independently)",
            "`x in y` is generated with at most one effectful operand; unknown functions get a constant argument (don't-care zones of the statement)",
            "sampled, bounded: depth<=5, <=30 nodes/rule, <=3 suspensions per call",
        ],
        real_components: REAL,
        stub_components: STUB,
        expected_hits: &[
            "hit.map_insertion_order_differs_from_key_order",
            "fault.fn_error",
            "fault.fn_suspend_selfwake",
            "fault.fn_suspend_deferred",
            "fault.spurious_poll",
            "fault.fresh_waker",
            "hit.call_with_a_call_in_its_argument",
            "hit.cached_call_whose_argument_made_calls",
            "hit.operator_chain_of_34_or_more_operands",
        ],
    }
}

pub fn c09_def() -> PropDef {
    PropDef {
        id: "C09",
        generate: |vs, idx, tier| Record::Sim(crate::c09::generate(vs, idx, tier == crate::driver::Tier::Thorough)),
        check: |rec, c| match rec {
            Record::Sim(s) => crate::c09::check(s, c),
            _ => Verdict::harness("wrong record kind".into()),
        },
        candidates: sim_candidates,
        runs_quick: 160_000,
        runs_thorough: 4_000_000,
        level: "fault_enumeration",
        rule: "rulesets of 0..6 seeded rules (succeeding, failing with each error class at the root or deep inside, calling cacheable and non-cacheable probes shared between rules) x inputs of every accepted shape (Value maps / non-maps / none, serde_json, derived struct and enum, string-keyed map, unit, maps with non-string keys); every base scenario is executed under all 2^4 patterns of 'which of its first four call sites fail' (16 consecutive run indices), plus a hash predicate for dynamic-argument calls; non-trivial = at least two rules or a typed input; distinct = distinct (rule count, input shape, failing-position bitmask, error class per rule) hashes, counted as set bits of a 2^25-bit bitmap",
        assumptions: &[
            "user functions are deterministic in (function, argument) — as the statement says; call-index dependent failures belong to C11",
            "'evaluating that rule's expression on its own' = a fresh one-rule ruleset with the same function table and symbols, evaluated alone with zero suspensions",
            "a Serialize impl failing through serde's custom() is not injected (that path is C13's)",
        ],
        real_components: REAL,
        stub_components: STUB,
        expected_hits: &[
            "fault.bad_input_serialisation",
            "fault.fn_error",
            "hit.failing_and_succeeding_rules_mixed",
            "hit.first_rule_fails_later_rules_exist",
            "hit.empty_ruleset",
            "hit.typed_input_compared_with_serialised_value",
            "hit.rule_failed_with.InvalidType",
            "hit.rule_failed_with.InvalidCast",
            "hit.rule_failed_with.UnknownRef",
            "hit.rule_failed_with.UserFunctionError",
            "hit.rule_failed_with.UnknownUserFunction",
            "hit.rule_failed_with.ValueOutOfBounds",
            "hit.rule_failed_with.DivisionByZero",
            "hit.rule_failed_with.InvalidSymbol",
            "hit.ruleset_of_300_or_more_rules",
            "hit.input_nested_deeper_than_128",
        ],
    }
}

pub fn c11_def() -> PropDef {
    PropDef {
        id: "C11",
        generate: |vs, idx, tier| Record::Sim(crate::c11::generate(run_seed(vs, "C11", idx), tier == crate::driver::Tier::Thorough)),
        check: |rec, c| match rec {
            Record::Sim(s) => crate::c11::check(s, c),
            _ => Verdict::harness("wrong record kind".into()),
        },
        candidates: sim_candidates,
        runs_quick: 300_000,
        runs_thorough: 30_000_000,
        level: "exploration",
        rule: "seeded histories of traced call sites r([k, F(t([k, ARG]))]) (2-3 cacheable and 1-2 non-cacheable functions, arguments from a collision-prone pool: i1 / \"1\" / \"i1\" / [i1] / f1 / d1 / true / none / crafted strings that collide under Display / maps / nested / results of other sites) spread over 1-5 rules, 2-4 consecutive, interleaved or abandoned-and-retried evaluations of the same ruleset object, failures injected by call ordinal, every invocation returning a unique value; non-trivial = at least one cache hit, or a cacheable call sharing its function or its argument with an earlier entry, or a re-invocation after a failure; distinct = distinct abstract history strings over {hit, miss, uncached, failed, abandoned} per evaluation, hashed into a 2^25-bit bitmap",
        assumptions: &[
            "'identical argument' is bit-exact canonical equality; argument pairs that are == but render differently (d1.0/d1.00, 0.0/-0.0) or render identically but are not == (NaN) are not generated",
            "the checker follows the observed site order, so evaluation-order changes (C05) raise no alarm here",
            "'carrying the original error' = the typed harness error is reachable by downcast or through the error chain; message texts are never compared",
        ],
        real_components: REAL,
        stub_components: STUB,
        expected_hits: &[
            "hit.cache_hit",
            "hit.reinvoked_after_failure_of_same_key",
            "hit.same_argument_other_function",
            "hit.same_function_other_argument",
            "hit.uncached_call",
            "hit.user_function_error_outcome",
            "hit.evaluation_after_earlier_evaluation",
            "hit.abandoned_then_retried",
            "hit.evaluation_with_256_or_more_distinct_cached_calls",
            "fault.fn_error",
            "fault.cancel_at_point",
            "fault.retry_after_abandon",
            "fault.interleave_switch",
        ],
    }
}

pub const C12_RULE: &str = "seeded scenarios: one ruleset object (1-5 generated rules with cacheable and non-cacheable probes + a symbol-table rule), 3 inputs, 2-6 evaluations (evaluate_value, evaluate(&T), Expr::evaluate) plus retries, scripts pure in (function, argument, evaluation tag, ordinal) so any value crossing between evaluations, any re-invocation and any remembered result changes an outcome; perturbed by 0-3 self-wake/deferred suspensions per call, four executor regimes (wake-driven, spurious polls, busy, clock running ahead), fresh wakers, interleaving at every suspension point, abandonment (cancellation at suspension point 0..7 enumerated over 8 consecutive run indices, virtual deadlines, panicking functions) followed by a retry; every finished evaluation must equal the same evaluation run alone on a fresh ruleset with zero suspensions (run twice). non-trivial = at least one interleave switch or one abandonment; distinct = distinct hashes of (interleaving projected on task switches, abandonment points), counted in a 2^25-bit bitmap";

pub fn c12_def() -> PropDef {
    PropDef {
        id: "C12",
        generate: |vs, idx, tier| Record::Sim(crate::c12::generate(vs, idx, "C12", tier == crate::driver::Tier::Thorough)),
        check: |rec, c| match rec {
            Record::Sim(s) => crate::c12::check(s, c),
            _ => Verdict::harness("wrong record kind".into()),
        },
        candidates: sim_candidates,
        runs_quick: 120_000,
        runs_thorough: 6_000_000,
        level: "fault_enumeration",
        rule: C12_RULE,
        assumptions: &[
            "'the same outcomes' = the outcomes of the same evaluation run alone, to completion, on a fresh ruleset built from the same scenario, with functions that never suspend",
            "a hang inside a single poll is outside a cooperative simulator's reach (wall-clock watchdog -> harness error)",
            "schedules and fault sequences are sampled; <=6+1 tasks, <=3 suspensions per call, <=3000 steps",
        ],
        real_components: REAL,
        stub_components: STUB,
        expected_hits: &[
            "fault.fn_error",
            "fault.fn_suspend_selfwake",
            "fault.fn_suspend_deferred",
            "fault.spurious_poll",
            "fault.fresh_waker",
            "fault.cancel_at_point",
            "fault.deadline_cancel",
            "fault.fn_panic",
            "fault.interleave_switch",
            "fault.retry_after_abandon",
            "hit.cancel_while_deferred_wake_outstanding",
            "hit.wake_fired_after_call_dropped",
            "hit.finished_after_an_earlier_abandonment",
            "hit.evaluation_died_by_unwinding",
            "hit.cancelled_at_suspension_point.0",
            "hit.cancelled_at_suspension_point.1",
            "hit.cancelled_at_suspension_point.4",
            "hit.cancelled_at_suspension_point.7",
            "hit.sixteen_or_more_evaluations_abandoned_on_one_ruleset",
            "hit.four_or_more_evaluations_failed_as_a_whole_on_one_ruleset",
            "hit.four_or_more_evaluations_died_by_unwinding_on_one_ruleset",
            "hit.interleaved_evaluations_nested_deeper_than_250",
        ],
    }
}

pub fn c15_def() -> PropDef {
    PropDef {
        id: "C15",
        generate: |vs, idx, tier| Record::Builder(crate::c15::generate(run_seed(vs, "C15", idx), idx, tier == crate::driver::Tier::Thorough)),
        check: |rec, c| match rec {
            Record::Builder(h) => crate::c15::check(h, c),
            _ => Verdict::harness("wrong record kind".into()),
        },
        candidates: sim_candidates,
        runs_quick: 200_000,
        runs_thorough: 8_000_000,
        level: "exploration",
        rule: "seeded histories of 1-12 builder calls (with_rule, with_rules, with_function, with_functions, with_symbol, with_symbols via insert/append/From) over small name pools with repeats; function names = all 38 reserved words and 20 near-identifiers each forced through both entry points over the first 116 run indices, plus identifiers and don't-care names; a refused call consumes the builder, the accepted prefix is rebuilt and the history continues; each call is judged against a reference model of the builder, then the built ruleset is evaluated in the simulator with one probe rule per function name and symbol name of the pools; non-trivial = at least two calls; distinct = distinct (accept/refuse sequence with refusal classes, final table sizes) hashes in a 2^25-bit bitmap",
        assumptions: &[
            "well-formed identifier = ^[A-Za-z_][A-Za-z0-9_]*$ on ASCII names; the bare '_' and names containing non-ASCII letters are don't-cares (accepted => invocable under exactly that name; refused => nothing else is required)",
            "reserved words = the 38 words the repository lists at the pinned commit",
            "this property has no fault or schedule dimension; the technique contributes seeded operation histories against an executable reference model, probe evaluations in the simulator, and minimised replayable histories",
        ],
        real_components: &["Builder (with_rule, with_rules, with_function, with_functions, with_symbol, with_symbols, build)", "UserFunctions::add_boxed_function, is_reserved_keyword, is_valid_identifier", "Symbols (insert, append, From)", "RuleSet::evaluate_value for the probe evaluation"],
        stub_components: STUB,
        expected_hits: &[
            "fault.builder_refusal",
            "hit.refused.DuplicateRuleName",
            "hit.refused.DuplicateFunctionName",
            "hit.refused.InvalidFunctionName",
            "hit.reserved_word_refused",
            "hit.accepted_function_invoked",
            "hit.symbol_resolved",
            "hit.symbol_overwritten",
        ],
    }
}

pub fn all() -> Vec<PropDef> {
    vec![c05_def(), c09_def(), c11_def(), c12_def(), c15_def()]
}

//! Summaries of what an evaluation returned: values through the harness's
//! canonical encoding, errors as variant + payload fields. reval's `Display`
//! and `Debug` texts are never compared.

use crate::world::ProbeError;
use crate::xv::canon;
use reval::ruleset::{Outcome, Rule};
use reval::value::Value;
use reval::Error;
use serde::{Deserialize, Serialize};

#[derive(Clone, Debug, PartialEq, Eq, Hash, Serialize, Deserialize)]
pub struct ErrSum {
    pub class: String,
    pub payload: Vec<String>,
}

#[derive(Clone, Debug, PartialEq, Eq, Hash, Serialize, Deserialize)]
pub enum Res {
    Ok(String),
    Err(ErrSum),
}

impl Res {
    pub fn is_ok(&self) -> bool {
        matches!(self, Res::Ok(_))
    }
    pub fn class(&self) -> &str {
        match self {
            Res::Ok(_) => "Ok",
            Res::Err(e) => &e.class,
        }
    }
}

#[derive(Clone, Debug, PartialEq, Eq, Hash, Serialize, Deserialize)]
pub struct OutcomeSum {
    pub rule_name: String,
    /// index of the scenario rule that `outcome.rule` is `==` to (whole `Rule`)
    pub rule_index: Option<usize>,
    pub value: Res,
}

#[derive(Clone, Debug, PartialEq, Eq, Hash, Serialize, Deserialize)]
pub enum TaskResult {
    Outcomes(Vec<OutcomeSum>),
    CallErr(ErrSum),
    Single(Res),
}

fn variant_name(e: &Error) -> String {
    let d = format!("{e:?}");
    d.chars().take_while(|c| c.is_alphanumeric() || *c == '_').collect()
}

/// The typed harness error, wherever the outcome carries it: as the error itself, in its chain, or
/// inside a `reval::Error::UserFunctionError` that the failing function returned as *its* error.
fn find_probe_error(error: &anyhow::Error, depth: u32) -> Option<&ProbeError> {
    if let Some(p) = error.downcast_ref::<ProbeError>() {
        return Some(p);
    }
    if let Some(p) = error.chain().find_map(|c| c.downcast_ref::<ProbeError>()) {
        return Some(p);
    }
    if depth < 4 {
        let inner = error.downcast_ref::<Error>().or_else(|| error.chain().find_map(|c| c.downcast_ref::<Error>()));
        if let Some(Error::UserFunctionError { error, .. }) = inner {
            return find_probe_error(error, depth + 1);
        }
    }
    None
}

pub fn err_sum(e: &Error) -> ErrSum {
    let (class, payload): (&str, Vec<String>) = match e {
        Error::InvalidFunctionName(n) => ("InvalidFunctionName", vec![n.clone()]),
        Error::DuplicateFunctionName(n) => ("DuplicateFunctionName", vec![n.clone()]),
        Error::DuplicateRuleName(n) => ("DuplicateRuleName", vec![n.clone()]),
        Error::ValueSerializationError(_) => ("ValueSerializationError", vec![]),
        Error::InvalidType => ("InvalidType", vec![]),
        Error::InvalidCast(v, _) => ("InvalidCast", vec![canon(v)]),
        Error::NumericOverflow(_) => ("NumericOverflow", vec![]),
        Error::UnexpectedValueType(v, _) => ("UnexpectedValueType", vec![canon(v)]),
        Error::UnknownRef(n) => ("UnknownRef", vec![n.clone()]),
        Error::UnknownIndex(n) => ("UnknownIndex", vec![n.clone()]),
        Error::UserFunctionError { function, error } => {
            // "carrying the original error": the typed harness error must be
            // reachable by downcast or through the chain; text is not compared
            let carried = find_probe_error(error, 0);
            match carried {
                Some(p) => ("UserFunctionError", vec![function.clone(), p.function.clone(), p.msg.clone()]),
                None => ("UserFunctionError", vec![function.clone(), "<original error lost>".into()]),
            }
        }
        Error::UnknownUserFunction(n) => ("UnknownUserFunction", vec![n.clone()]),
        Error::ValueOutOfBounds(v, _) => ("ValueOutOfBounds", vec![canon(v)]),
        Error::DivisionByZero => ("DivisionByZero", vec![]),
        Error::InvalidSymbol(n) => ("InvalidSymbol", vec![n.clone()]),
        #[allow(unreachable_patterns)]
        other => {
            return ErrSum { class: format!("Other({})", variant_name(other)), payload: vec![] };
        }
    };
    ErrSum { class: class.to_string(), payload }
}

pub fn res_sum(r: &Result<Value, Error>) -> Res {
    match r {
        Ok(v) => Res::Ok(canon(v)),
        Err(e) => Res::Err(err_sum(e)),
    }
}

pub fn outcomes_sum(r: &Result<Vec<Outcome<'_>>, Error>, rules: &[Rule]) -> TaskResult {
    match r {
        Err(e) => TaskResult::CallErr(err_sum(e)),
        Ok(v) => TaskResult::Outcomes(
            v.iter()
                .map(|o| OutcomeSum {
                    rule_name: o.rule.name().to_string(),
                    rule_index: rules.iter().position(|r| r == o.rule),
                    value: res_sum(&o.value),
                })
                .collect(),
        ),
    }
}

//! SplitMix64 — the only source of randomness in the harness. Never consulted
//! from logging paths; a run is a pure function of its seed and the code.

#[derive(Clone, Debug)]
pub struct Rng(u64);

pub fn mix64(mut z: u64) -> u64 {
    z = z.wrapping_add(0x9E37_79B9_7F4A_7C15);
    z = (z ^ (z >> 30)).wrapping_mul(0xBF58_476D_1CE4_E5B9);
    z = (z ^ (z >> 27)).wrapping_mul(0x94D0_49BB_1331_11EB);
    z ^ (z >> 31)
}

/// FNV-1a over bytes, then mixed — used for stable hashing of strings (never
/// `std::hash`, whose SipHash keys are fine but whose `HashMap` order is not).
pub fn hash_bytes(bytes: &[u8]) -> u64 {
    let mut h: u64 = 0xcbf2_9ce4_8422_2325;
    for b in bytes {
        h ^= *b as u64;
        h = h.wrapping_mul(0x0000_0100_0000_01B3);
    }
    mix64(h)
}

pub fn hash_str(s: &str) -> u64 {
    hash_bytes(s.as_bytes())
}

pub fn combine(a: u64, b: u64) -> u64 {
    mix64(a ^ mix64(b).rotate_left(23))
}

/// Seed of run `index` of `property` under `verif_seed`.
pub fn run_seed(verif_seed: u64, property: &str, index: u64) -> u64 {
    combine(combine(mix64(verif_seed), hash_str(property)), index)
}

impl Rng {
    pub fn new(seed: u64) -> Self {
        Rng(mix64(seed ^ 0xD1B5_4A32_D192_ED03))
    }
    pub fn next_u64(&mut self) -> u64 {
        self.0 = self.0.wrapping_add(0x9E37_79B9_7F4A_7C15);
        let mut z = self.0;
        z = (z ^ (z >> 30)).wrapping_mul(0xBF58_476D_1CE4_E5B9);
        z = (z ^ (z >> 27)).wrapping_mul(0x94D0_49BB_1331_11EB);
        z ^ (z >> 31)
    }
    /// Uniform in 0..n (n > 0).
    pub fn below(&mut self, n: u64) -> u64 {
        debug_assert!(n > 0);
        // multiply-shift; bias is irrelevant here
        ((self.next_u64() as u128 * n as u128) >> 64) as u64
    }
    pub fn usize(&mut self, n: usize) -> usize {
        self.below(n as u64) as usize
    }
    /// Inclusive range.
    pub fn range(&mut self, lo: i64, hi: i64) -> i64 {
        lo + self.below((hi - lo + 1) as u64) as i64
    }
    /// True with probability num/den.
    pub fn chance(&mut self, num: u64, den: u64) -> bool {
        self.below(den) < num
    }
    pub fn pick<'a, T>(&mut self, xs: &'a [T]) -> &'a T {
        &xs[self.usize(xs.len())]
    }
    /// Weighted index.
    pub fn weighted(&mut self, weights: &[u32]) -> usize {
        let total: u64 = weights.iter().map(|w| *w as u64).sum();
        if total == 0 {
            return 0;
        }
        let mut r = self.below(total);
        for (i, w) in weights.iter().enumerate() {
            if r < *w as u64 {
                return i;
            }
            r -= *w as u64;
        }
        weights.len() - 1
    }
    pub fn fork(&mut self) -> Rng {
        Rng::new(self.next_u64())
    }
}

//! C09 — one outcome per rule, in order, each isolated from the others;
//! `evaluate(&T)` == `evaluate_value(&serialize(T))`, failing only when T
//! cannot be serialised.

use crate::c05::{random_behaviour, random_picks, standard_symbols};
use crate::exec::{input_has_non_string_key, make_input, run, run_with, Input, TaskEnd};
use crate::gen::{ty_of, Gen, GenCfg, ALL_TYS};
use crate::prop::{Counters, Verdict};
use crate::rng::{combine, hash_str, run_seed, Rng};
use crate::spec::*;
use crate::summary::{OutcomeSum, TaskResult};
use crate::xv::XV;
use reval::value::ser::ValueSerializer;
use reval::value::Value;
use serde::Serialize;
use std::sync::Arc;

/// Inputs of every shape the entry points accept, all exposing (a subset of) the
/// same field names so that rules written against them evaluate deep.
fn input_menu(rng: &mut Rng, thorough: bool) -> (InputSpec, Vec<(String, Ty)>) {
    let x = rng.range(0, 9);
    let y = rng.range(0, 9);
    let flag = rng.chance(1, 2);
    let val_fields: Vec<(String, XV)> = vec![
        ("x".into(), XV::I(x)),
        ("y".into(), XV::I(y)),
        ("flag".into(), XV::B(flag)),
        ("name".into(), XV::s("bob")),
        ("ratio".into(), XV::F(1.5)),
        ("lst".into(), XV::V(vec![XV::I(1), XV::I(2)])),
        ("mp".into(), XV::M(vec![("a".into(), XV::I(1))])),
        ("nil".into(), XV::N),
        ("age".into(), XV::I(x + 20)),
        ("limit".into(), XV::I(x + 40)),
    ];
    let refs_all: Vec<(String, Ty)> = val_fields.iter().map(|(k, v)| (k.clone(), ty_of(v))).collect();
    // deeply nested but perfectly serialisable inputs now and then
    if rng.chance(1, 25) {
        let max = if thorough { 1500 } else { 300 };
        let depth = 2 + rng.below(max) as u32;
        return if rng.chance(1, 2) {
            (InputSpec::DeepVal { depth, leaf: x }, refs_all)
        } else {
            (InputSpec::DeepChain { depth }, vec![("v".into(), Ty::Int), ("next".into(), Ty::Map)])
        };
    }
    if rng.chance(1, 8) {
        // the rest of the serde data model: scalars, options, tuples, sequences, newtype / unit /
        // tuple structs, chars, empty maps — rules then mostly see `facts` or fail on references
        return (InputSpec::Typed(rng.below(15) as u8, x), vec![("facts".into(), Ty::Map), ("n".into(), Ty::Int), ("flag".into(), Ty::Bool)]);
    }
    match rng.below(12) {
        0 | 1 | 2 | 3 => (InputSpec::Val(XV::M(val_fields)), refs_all),
        4 => (InputSpec::Val(XV::N), refs_all),
        5 => (InputSpec::Val(XV::I(7)), refs_all),
        6 => (
            InputSpec::Json(format!(
                "{{\"x\":{x},\"y\":{y},\"flag\":{flag},\"name\":\"bob\",\"ratio\":1.5,\"lst\":[1,2],\"mp\":{{\"a\":1}},\"nil\":null,\"age\":{}}}",
                x + 20
            )),
            refs_all,
        ),
        7 => (
            InputSpec::Struct {
                age: x + 20,
                name: "bob".into(),
                tags: vec!["t1".into(), "t2".into()],
                nested: if flag { Some((y, flag)) } else { None },
            },
            vec![("age".into(), Ty::Int), ("name".into(), Ty::Str), ("tags".into(), Ty::Vec), ("nested".into(), Ty::Map)],
        ),
        8 => (InputSpec::Enum(rng.below(4) as u8, x), refs_all),
        9 => (
            InputSpec::IntKeyMap(if rng.chance(1, 5) { vec![] } else { vec![(1, x), (2, y)] }),
            refs_all,
        ),
        10 => (
            InputSpec::NestedBadKey(if rng.chance(1, 4) {
                vec![("mp".into(), vec![])]
            } else {
                vec![("mp".into(), vec![(flag, x)]), ("zz".into(), vec![])]
            }),
            refs_all,
        ),
        _ => {
            if rng.chance(1, 2) {
                (InputSpec::Unit, refs_all)
            } else {
                (InputSpec::StrKeyMap(vec![("x".into(), x), ("y".into(), y), ("age".into(), x + 20)]), refs_all)
            }
        }
    }
}

pub fn generate(verif_seed: u64, idx: u64, thorough: bool) -> Scenario {
    // 16 (thorough: 64) consecutive indices share one base scenario and enumerate all 2^4 (2^6)
    // patterns of "which of (up to) four (six) designated call sites fail"
    let bits = if thorough { 6 } else { 4 };
    let family = idx >> bits;
    let mask = (idx & ((1 << bits) - 1)) as u32;
    let seed = run_seed(verif_seed, "C09", family);
    let mut rng = Rng::new(seed);
    let mut scn = Scenario::new("C09");
    let (input, refs) = input_menu(&mut rng, thorough);
    scn.symbols = standard_symbols(&mut rng);
    let syms = scn.symbols.iter().map(|(k, v)| (k.clone(), ty_of(v))).collect();
    let mut cfg = GenCfg::swarm(&mut rng);
    cfg.p_repeat_site = *rng.pick(&[0, 200, 500]);
    cfg.p_fail_site = *rng.pick(&[0, 0, 60]);
    cfg.p_err_leaf = *rng.pick(&[0, 30, 100]);
    cfg.max_probes = 6;
    scn.text_build = rng.chance(1, 12);
    // now and then a larger ruleset (chunked or sorted evaluation of many rules would show here)
    // … and rarely a very large one of tiny, mostly failing rules (state that accumulates per rule or
    // per failure inside one evaluation only shows after hundreds of them)
    let huge = rng.chance(1, 40);
    let nrules = if huge {
        100 + rng.usize(if thorough { 2500 } else { 700 })
    } else if rng.chance(1, 10) {
        7 + rng.usize(10)
    } else {
        rng.usize(7)
    };
    if huge {
        cfg.p_err_leaf = *rng.pick(&[300, 600, 900]);
        cfg.max_depth = 1;
        cfg.p_chain = 0;
    }
    let names = crate::c05::rule_names(&mut rng, nrules);
    let mut grng = rng.fork();
    let mut g = Gen::new(&mut grng, cfg, refs, syms);
    for i in 0..nrules {
        g.nodes = 0;
        g.probes = 0;
        let ty = *g.rng.pick(&ALL_TYS);
        // a rule that is a bare error leaf now and then: failure at the root
        let d = if g.rng.chance(1, 6) || (huge && g.rng.chance(2, 3)) { 0 } else { g.cfg.max_depth.min(3) };
        let expr = g.gen(ty, d);
        scn.rules.push(RuleSpec { name: names[i].clone(), expr });
    }
    // twin rules now and then: an identical copy of an earlier rule, or two rules that are
    // re-associations of one another over the bitwise operators (they differ in structure and value
    // but could easily be confused by anything that identifies an expression by a rendering)
    if !huge && g.rng.chance(1, 6) && scn.rules.len() < 14 {
        use crate::xexpr::{BinOp, X};
        if !scn.rules.is_empty() && g.rng.chance(1, 3) {
            let j = g.rng.usize(scn.rules.len());
            let copy = scn.rules[j].expr.clone();
            scn.rules.push(RuleSpec { name: format!("twin of {}", scn.rules[j].name), expr: copy });
        } else {
            let ops = [BinOp::BitAnd, BinOp::BitOr, BinOp::BitXor];
            let (o1, o2) = (*g.rng.pick(&ops), *g.rng.pick(&ops));
            let leaf = |g: &mut Gen| -> X {
                match g.rng.below(3) {
                    0 => X::Ref("x".into()),
                    1 => X::Ref("y".into()),
                    _ => X::int(g.rng.range(1, 7)),
                }
            };
            let (a, b, c3) = (leaf(&mut g), leaf(&mut g), leaf(&mut g));
            let left = X::bin(o1, X::bin(o2, a.clone(), b.clone()), c3.clone());
            let right = X::bin(o2, a, X::bin(o1, b, c3));
            let at = g.rng.usize(scn.rules.len() + 1);
            scn.rules.insert(at, RuleSpec { name: "assoc left".into(), expr: left });
            scn.rules.push(RuleSpec { name: "assoc right".into(), expr: right });
        }
    }
    // half of the functions are cacheable: the shared cache is exercised across a failing neighbour
    let cache_mask = g.rng.next_u64();
    let cacheable = move |t: Ty| (cache_mask >> (t as u32)) & 1 == 1;
    scn.functions = g.functions(&cacheable, false, false, seed);
    // fault enumeration: the first four constant-argument call sites, by mask
    let mut designated = 0;
    'outer: for f in scn.functions.iter_mut() {
        for row in f.rows.iter_mut() {
            if designated >= bits {
                break 'outer;
            }
            if mask & (1 << designated) != 0 {
                row.out = ScriptOut::Fail(format!("enumerated failure {designated}"));
            } else if matches!(row.out, ScriptOut::Fail(_)) {
                row.out = ScriptOut::Typed(Ty::Int);
            }
            designated += 1;
        }
    }
    if rng.chance(1, 5) {
        // dynamic-argument calls fail by a deterministic predicate on (function, argument)
        let i = rng.usize(scn.functions.len());
        scn.functions[i].fail_mod = 2 + rng.below(3) as u32;
    }
    scn.inputs = vec![input];
    scn.tasks = vec![TaskSpec { tag: 0, entry: Entry::RuleSet, input: 0, start: Start::Now }];
    let p_susp = *rng.pick(&[0, 300, 800]);
    scn.behaviour = random_behaviour(&mut rng, 0, 30, p_susp, 2);
    let p_spur = *rng.pick(&[0, 0, 200]);
    scn.picks = random_picks(&mut rng, 40, 1, p_spur, 100);
    scn.exec.fresh_waker = rng.chance(1, 5);
    scn.exec.max_steps = 600;
    scn
}

fn serialize_input(i: &Input) -> Result<Value, reval::Error> {
    match i {
        Input::Val(v) => Ok(v.clone()),
        Input::Json(j) => j.serialize(ValueSerializer),
        Input::Struct(s) => s.serialize(ValueSerializer),
        Input::Enum(e) => e.serialize(ValueSerializer),
        Input::IntKeyMap(m) => m.serialize(ValueSerializer),
        Input::NestedBadKey(m) => m.serialize(ValueSerializer),
        Input::Unit => ().serialize(ValueSerializer),
        Input::StrKeyMap(m) => m.serialize(ValueSerializer),
        Input::Chain(ch) => ch.serialize(ValueSerializer),
        Input::Typed(t) => {
            use crate::exec::TypedIn;
            match t {
                TypedIn::I(x) => x.serialize(ValueSerializer),
                TypedIn::S(x) => x.serialize(ValueSerializer),
                TypedIn::ONone(x) | TypedIn::OSome(x) => x.serialize(ValueSerializer),
                TypedIn::OStruct(x) => x.serialize(ValueSerializer),
                TypedIn::Tup(x) => x.serialize(ValueSerializer),
                TypedIn::Seq(x) => x.serialize(ValueSerializer),
                TypedIn::Newtype(x) => x.serialize(ValueSerializer),
                TypedIn::UnitS(x) => x.serialize(ValueSerializer),
                TypedIn::Ch(x) => x.serialize(ValueSerializer),
                TypedIn::B(x) => x.serialize(ValueSerializer),
                TypedIn::EmptyMap(x) => x.serialize(ValueSerializer),
                TypedIn::F(x) => x.serialize(ValueSerializer),
                TypedIn::TupS(x) => x.serialize(ValueSerializer),
                TypedIn::SeqStruct(x) => x.serialize(ValueSerializer),
            }
        }
    }
}

fn finished_outcomes(end: &TaskEnd) -> Result<Result<Vec<OutcomeSum>, crate::summary::ErrSum>, Verdict> {
    match end {
        TaskEnd::Finished(TaskResult::Outcomes(o)) => Ok(Ok(o.clone())),
        TaskEnd::Finished(TaskResult::CallErr(e)) => Ok(Err(e.clone())),
        TaskEnd::ForeignPanic(m) => Err(Verdict::skip(format!("panic during evaluation: {m}"))),
        other => Err(Verdict::harness(format!("C09 task ended as {other:?}"))),
    }
}

pub fn check(scn: &Scenario, c: &mut Counters) -> Verdict {
    let out = match run(scn) {
        Ok(o) => o,
        Err(e) => return Verdict::harness(e),
    };
    c.absorb_run(&out);
    if out.lost_wakeup.is_some() || out.budget_exhausted {
        // liveness under schedules is C12's business
        c.bump("skipped.liveness");
        return Verdict::skip("evaluation did not finish under this schedule (C12)".into());
    }
    let n = scn.rules.len();
    let spec = &scn.inputs[scn.tasks[0].input];
    let got = match finished_outcomes(&out.ends[0]) {
        Ok(g) => g,
        Err(v) => {
            c.bump("skipped.foreign_panic");
            return v;
        }
    };
    let typed_entry = !matches!(spec, InputSpec::Val(_) | InputSpec::DeepVal { .. });

    // ---- clause 4: the call as a whole fails only when the input cannot be serialised
    let bad_key = input_has_non_string_key(spec);
    let materialised = match make_input(spec) {
        Ok(i) => i,
        Err(e) => return Verdict::harness(e),
    };
    let outcomes = match got {
        Err(e) => {
            if bad_key && e.class == "ValueSerializationError" {
                c.bump("fault.bad_input_serialisation");
                let s = combine(hash_str("ser-fail"), n as u64);
                return Verdict::pass(Some(s));
            }
            if bad_key {
                return Verdict::violation(
                    "unserialisable-input-wrong-error",
                    format!("input with a non-string map key | call failed with {e:?}, expected ValueSerializationError"),
                );
            }
            return Verdict::violation(
                "call-failed-on-serialisable-input",
                format!("input {spec:?} | the call as a whole failed with {e:?}"),
            );
        }
        Ok(o) => {
            if bad_key {
                return Verdict::violation(
                    "unserialisable-input-accepted",
                    format!("input with a non-string map key | call returned {} outcomes instead of failing", o.len()),
                );
            }
            o
        }
    };

    // ---- clause 1: exactly one outcome per rule
    if outcomes.len() != n {
        return Verdict::violation(
            "outcome-count",
            format!("{} rules | {} outcomes", n, outcomes.len()),
        );
    }
    // ---- clause 2: in order, each carrying the rule it came from
    for (i, o) in outcomes.iter().enumerate() {
        if o.rule_name != scn.rules[i].name || o.rule_index != Some(i) {
            return Verdict::violation(
                "outcome-rule-identity",
                format!(
                    "outcome {i} carries rule {:?} (== scenario rule {:?}) | expected rule {:?} at that position",
                    o.rule_name, o.rule_index, scn.rules[i].name
                ),
            );
        }
    }
    // ---- clause 4b: evaluate(&T) == evaluate_value(&serialize(T))
    let facts: Arc<Input> = if typed_entry {
        match serialize_input(&materialised) {
            Ok(v) => {
                let mut s2 = scn.solo(0);
                s2.inputs = vec![InputSpec::Val(XV::N)];
                s2.tasks[0].input = 0;
                let arc = Arc::new(Input::Val(v));
                let o2 = match run_with(&s2, Some(vec![arc.clone()])) {
                    Ok(o) => o,
                    Err(e) => return Verdict::harness(e),
                };
                c.add("exec.reference_executions", 1);
                match finished_outcomes(&o2.ends[0]) {
                    Ok(Ok(v2)) => {
                        if v2 != outcomes {
                            let i = v2.iter().zip(outcomes.iter()).position(|(a, b)| a != b).unwrap_or(0);
                            return Verdict::violation(
                                "typed-input-differs-from-serialised-value",
                                format!(
                                    "input {spec:?} | outcome {i}: evaluate(&T) gave {:?}, evaluate_value(&serialize(T)) gave {:?}",
                                    outcomes.get(i).map(|o| &o.value),
                                    v2.get(i).map(|o| &o.value)
                                ),
                            );
                        }
                    }
                    Ok(Err(e)) => return Verdict::violation("call-failed-on-serialisable-input", format!("evaluate_value on the serialised input failed with {e:?}")),
                    Err(v) => return v,
                }
                c.bump("hit.typed_input_compared_with_serialised_value");
                arc
            }
            Err(e) => {
                return Verdict::violation(
                    "call-succeeded-on-unserialisable-input",
                    format!("input {spec:?} | serialisation fails with {e:?} but evaluate(&T) returned outcomes"),
                );
            }
        }
    } else {
        Arc::new(materialised)
    };

    // ---- clause 3: each outcome equals the rule evaluated alone on a fresh one-rule ruleset
    let mut fail_mask = 0u64;
    let mut failed_count = 0usize;
    let mut sig = combine(n as u64, hash_str(&format!("{:?}", std::mem::discriminant(spec))));
    for i in 0..n {
        let mut s1 = scn.solo(0);
        s1.rules = vec![scn.rules[i].clone()];
        let o1 = match run_with(&s1, Some(vec![facts.clone()])) {
            Ok(o) => o,
            Err(e) => return Verdict::harness(e),
        };
        c.add("exec.reference_executions", 1);
        let alone = match finished_outcomes(&o1.ends[0]) {
            Ok(Ok(v)) if v.len() == 1 => v[0].value.clone(),
            Ok(other) => return Verdict::skip(format!("one-rule reference returned {other:?}")),
            Err(v) => return v,
        };
        if alone != outcomes[i].value {
            let others_failed = outcomes.iter().enumerate().any(|(j, o)| j != i && !o.value.is_ok());
            return Verdict::violation(
                if others_failed { "outcome-changed-by-failing-neighbour" } else { "outcome-differs-from-rule-alone" },
                format!(
                    "rule {i} of {n} ({}) | in the ruleset: {:?}; evaluated alone: {:?}",
                    scn.rules[i].name, outcomes[i].value, alone
                ),
            );
        }
        if !alone.is_ok() {
            if i < 64 {
                fail_mask |= 1 << i;
            }
            failed_count += 1;
            c.bump(&format!("hit.rule_failed_with.{}", alone.class()));
        }
        sig = combine(sig, hash_str(alone.class()));
    }
    sig = combine(sig, fail_mask);
    if failed_count != 0 && failed_count != n {
        c.bump("hit.failing_and_succeeding_rules_mixed");
    }
    if fail_mask & 1 != 0 && n > 1 {
        c.bump("hit.first_rule_fails_later_rules_exist");
    }
    if n == 0 {
        c.bump("hit.empty_ruleset");
    }
    if failed_count >= 1 && n >= 300 {
        c.bump("hit.ruleset_of_300_or_more_rules");
    }
    if let InputSpec::DeepVal { depth, .. } | InputSpec::DeepChain { depth } = spec {
        if *depth > 128 {
            c.bump("hit.input_nested_deeper_than_128");
        }
    }
    c.add("rules.evaluated", n as u64);
    Verdict::pass(if n >= 2 || typed_entry { Some(sig) } else { None })
}

//! C11 — user-function caching is transparent, per evaluation and per
//! argument. Workload of traced call sites and a cache-coherence *history
//! checker* (it follows the observed site order; it predicts no trace).

use crate::c05::{random_behaviour, random_picks};
use crate::exec::{run, TaskEnd};
use crate::prop::{Counters, Verdict};
use crate::rng::{combine, hash_str, Rng};
use crate::spec::*;
use crate::summary::{Res, TaskResult};
use crate::world::Ev;
use crate::xexpr::X;
use crate::xv::{canon, XV};
use std::collections::{BTreeMap, HashMap};

fn arg_pool() -> Vec<X> {
    vec![
        X::Val(XV::I(1)),
        X::Val(XV::s("1")),
        X::Val(XV::s("i1")),
        X::Vec(vec![X::Val(XV::I(1))]),
        X::Val(XV::F(1.0)),
        X::Val(XV::D(1, 0)),
        X::Val(XV::B(true)),
        X::Val(XV::N),
        X::Vec(vec![X::Val(XV::s("a\", \"b"))]),
        X::Vec(vec![X::Val(XV::s("a")), X::Val(XV::s("b"))]),
        X::Map(vec![("a".into(), X::Val(XV::I(1)))]),
        X::Vec(vec![X::Vec(vec![X::Val(XV::I(1))])]),
        X::Ref("x".into()), // the input field x is i1: identical to the literal
        X::Val(XV::I(2)),
        X::Val(XV::s("c1")),
        // differ only in case / surrounding blanks / element order / nesting of none
        X::Val(XV::s("a")),
        X::Val(XV::s("A")),
        X::Val(XV::s("a ")),
        X::Vec(vec![X::Val(XV::I(1)), X::Val(XV::I(2))]),
        X::Vec(vec![X::Val(XV::I(2)), X::Val(XV::I(1))]),
        X::Vec(vec![X::Val(XV::N)]),
        X::Vec(vec![]),
        X::Val(XV::F(0.1 + 0.2)),
        X::Val(XV::F(0.3)),
        X::Val(XV::I(4_294_967_297)), // 2^32 + 1: equals 1 after truncation to 32 bits
        X::Val(XV::I(-1)),
        X::Val(XV::D(10, 1)), // d1.0 — deliberately NOT together with d1 (don't-care zone); see generate()
    ]
}

/// Canonical key of a constant pool argument (None for dynamic ones).
fn const_key(x: &X) -> Option<String> {
    fn to_xv(x: &X) -> Option<XV> {
        match x {
            X::Val(v) => Some(v.clone()),
            X::Vec(items) => Some(XV::V(items.iter().map(to_xv).collect::<Option<Vec<_>>>()?)),
            X::Map(m) => Some(XV::M(m.iter().map(|(k, v)| Some((k.clone(), to_xv(v)?))).collect::<Option<Vec<_>>>()?)),
            X::Ref(n) if n == "x" => Some(XV::I(1)),
            _ => None,
        }
    }
    to_xv(x).map(|v| canon(&v.to_value()))
}

fn site_expr(k: i64, f: &str, arg: X) -> X {
    // r([k, F(t([k, ARG]))])
    let t = X::call("t", X::Vec(vec![X::int(k), arg]));
    X::call("r", X::Vec(vec![X::int(k), X::call(f, t)]))
}

fn anonymise(x: &X) -> X {
    if let X::Call(rn, inner) = x {
        if rn == "r" {
            if let X::Vec(items) = &**inner {
                if let [X::Val(XV::I(k)), X::Call(f, targ)] = &items[..] {
                    if let X::Call(tn, tinner) = &**targ {
                        if tn == "t" {
                            if let X::Vec(titems) = &**tinner {
                                if let [X::Val(XV::I(_)), arg] = &titems[..] {
                                    let u = X::call("u", anonymise(arg));
                                    return X::call("r", X::Vec(vec![X::int(*k), X::call(f, u)]));
                                }
                            }
                        }
                    }
                }
            }
        }
    }
    let mut n = x.clone();
    for c in n.children_mut() {
        *c = anonymise(c);
    }
    n
}

pub fn generate(seed: u64, thorough: bool) -> Scenario {
    let mut rng = Rng::new(seed);
    let mut scn = Scenario::new("C11");
    let ncache = 2 + rng.usize(2);
    let nplain = 1 + rng.usize(2);
    let mut names: Vec<String> = vec![];
    // now and then the registered names are confusable: they differ only in case or by an underscore
    let confusable = rng.chance(1, 4);
    let cnames: Vec<&str> = if confusable { vec!["c1", "C1", "c1_", "c_1"] } else { vec!["c1", "c2", "c3", "c4"] };
    let nnames: Vec<&str> = if confusable { vec!["n1", "N1"] } else { vec!["n1", "n2"] };
    let fail_style = *rng.pick(&[0u8, 0, 0, 1, 2]);
    for i in 0..ncache {
        let mut f = FnSpec::new(cnames[i], true, ScriptOut::Unique);
        f.fail_style = fail_style;
        f.mix_tag = true;
        f.mix_ordinal = true;
        f.salt = seed;
        names.push(f.name.clone());
        scn.functions.push(f);
    }
    for i in 0..nplain {
        let mut f = FnSpec::new(nnames[i], false, ScriptOut::Unique);
        f.fail_style = fail_style;
        f.mix_tag = true;
        f.mix_ordinal = true;
        f.salt = seed;
        names.push(f.name.clone());
        scn.functions.push(f);
    }
    // now and then one function's `cacheable()` is dynamic: true for its first n invocations of an
    // evaluation, false afterwards (a function that declares itself non-cacheable must be invoked)
    if rng.chance(1, 8) {
        scn.functions[0].cacheable_first = Some(1 + rng.below(3) as u32);
    }
    scn.functions.push(FnSpec::new("t", false, ScriptOut::Nth(1)));
    scn.functions.push(FnSpec::new("r", false, ScriptOut::Nth(1)));

    // a small per-run argument pool so that equal and similar arguments meet often
    let pool = arg_pool();
    let npool = 2 + rng.usize(4);
    let mut mine: Vec<X> = vec![];
    for _ in 0..npool {
        mine.push(rng.pick(&pool).clone());
    }
    // d1 and d1.0 are == but render differently: never in the same run (don't-care zone)
    if mine.contains(&X::Val(XV::D(1, 0))) {
        mine.retain(|x| *x != X::Val(XV::D(10, 1)));
    }
    // a large evaluation now and then: many distinct arguments, then repeats of the earliest ones
    // (a size-limited or evicting cache would show here)
    let big = rng.chance(1, 10);
    if big {
        // log-uniform: mostly 20–90 distinct arguments, rarely up to ~1 400 (thorough: ~11 000)
        let max_log = if !rng.chance(1, 20) { 6.5 } else if thorough { 13.5 } else { 10.5 };
        let n = 2.0f64.powf(4.3 + (rng.below(1000) as f64 / 1000.0) * (max_log - 4.3)) as usize;
        mine = (0..n).map(|i| X::Val(XV::I(1000 + i as i64))).collect();
    }
    let nfn_used = 1 + rng.usize(names.len());
    let used: Vec<String> = (0..nfn_used).map(|_| rng.pick(&names).clone()).collect();

    let nrules = if big { 1 + rng.usize(2) } else { 1 + rng.usize(5) };
    let names = crate::c05::rule_names(&mut rng, nrules);
    let mut k = 100;
    let mut all_sites: Vec<(String, X)> = vec![];
    for ri in 0..nrules {
        let nsites = if big { mine.len() + 3 + rng.usize(10) } else { 1 + rng.usize(4) };
        let mut items = vec![];
        for si in 0..nsites {
            let f = if big { used[0].clone() } else { rng.pick(&used).clone() };
            let arg = if big {
                // first every distinct argument once, then the earliest ones again
                let a = if si < mine.len() { mine[si].clone() } else { mine[rng.usize(4.min(mine.len()))].clone() };
                all_sites.push((f.clone(), a.clone()));
                a
            } else if !all_sites.is_empty() && rng.chance(1, 5) {
                // the result of another site as argument: c1(c2(x))
                let (f2, a2) = rng.pick(&all_sites).clone();
                k += 1;
                site_expr(k, &f2, a2)
            } else {
                let a = rng.pick(&mine).clone();
                all_sites.push((f.clone(), a.clone()));
                a
            };
            k += 1;
            items.push(site_expr(k, &f, arg));
        }
        scn.rules.push(RuleSpec { name: names[ri].clone(), expr: X::Vec(items) });
    }

    // failures by call ordinal: "the 1st invocation of (c1,"1") fails, the 2nd succeeds"
    let nfail = *rng.pick(&[0usize, 1, 1, 2, 3]);
    for _ in 0..nfail {
        let (f, a) = rng.pick(&all_sites).clone();
        let Some(key) = const_key(&a) else { continue };
        let fi = scn.functions.iter().position(|s| s.name == f).unwrap();
        let ordinal = match rng.below(6) {
            0 => None,
            1 => Some(1),
            _ => Some(0),
        };
        let tag = if rng.chance(1, 3) { Some(rng.below(3) as u32) } else { None };
        let nrows = scn.functions[fi].rows.len();
        scn.functions[fi].rows.push(ScriptRow {
            key: Some(key.clone()),
            tag,
            ordinal,
            out: ScriptOut::Fail(format!("fail-{f}-{nrows}")),
        });
    }

    // a few calls succeed with a "falsy" result (none, false, zero, empty): such results are results
    // like any other and must be remembered too
    let nspecial = *rng.pick(&[0usize, 0, 1, 2]);
    for _ in 0..nspecial {
        let (f, a) = rng.pick(&all_sites).clone();
        let Some(key) = const_key(&a) else { continue };
        let fi = scn.functions.iter().position(|s| s.name == f).unwrap();
        let v = rng.pick(&[XV::N, XV::N, XV::B(false), XV::I(0), XV::s(""), XV::V(vec![])]).clone();
        scn.functions[fi].rows.push(ScriptRow { key: Some(key), tag: None, ordinal: None, out: ScriptOut::Ok(v) });
    }
    scn.inputs = vec![InputSpec::Val(XV::M(vec![("x".into(), XV::I(1)), ("y".into(), XV::s("1"))]))];
    scn.text_build = rng.chance(1, 12);
    let ntasks = 2 + rng.usize(3);
    let mode = rng.below(10);
    for t in 0..ntasks {
        let start = if t == 0 || (3..6).contains(&mode) { Start::Now } else { Start::AfterEnd(t - 1) };
        scn.tasks.push(TaskSpec { tag: t as u32, entry: Entry::RuleSet, input: 0, start });
    }
    let p_susp = if (3..6).contains(&mode) { 800 } else { *rng.pick(&[0, 300, 700]) };
    for t in 0..ntasks {
        scn.behaviour.extend(random_behaviour(&mut rng, t, 40, p_susp, 2));
    }
    if mode >= 6 && mode < 8 {
        // abandon one evaluation midway; the next one in the chain is its retry
        let victim = rng.usize(ntasks - 1);
        scn.faults.push(Fault::CancelAfterPending { task: victim, k: 1 + rng.below(4) as u32 });
        scn.behaviour.push(Beh { task: victim, call: rng.below(4) as u32, susp: vec![Susp::SelfWake, Susp::Deferred(5_000_000)], panic: false });
    }
    let p_spur = *rng.pick(&[0, 0, 150]);
    scn.picks = random_picks(&mut rng, 120, ntasks, p_spur, 80);
    if rng.chance(1, 4) {
        crate::c05::random_priorities(&mut rng, ntasks, &mut scn.exec);
    }
    scn.exec.fresh_waker = rng.chance(1, 5);
    if !big && Rng::new(seed ^ 0xA707_A707).chance(1, 4) {
        // anonymous argument tracer: sites become r([k, F(u(ARG))]) — the call expression F(u(ARG)) no longer
        // carries the site number, so equal calls at different sites are textually identical
        for r in scn.rules.iter_mut() {
            r.expr = anonymise(&r.expr);
        }
        for f in scn.functions.iter_mut() {
            if f.name == "t" {
                *f = FnSpec::new("u", false, ScriptOut::Echo);
            }
        }
    }
    scn.exec.max_steps = if big { 20_000 + 40 * mine.len() as u32 * 4 } else { 1500 };
    if big {
        // keep the big evaluations cheap: few suspensions
        scn.behaviour.retain(|b| b.call % 7 == 0);
    }
    scn
}

// --------------------------------------------------------------- the checker

#[derive(Clone, Debug)]
struct SiteInfo {
    f: String,
    rule: usize,
    /// position among the rule's top-level items (None for a site nested in another's argument)
    top_pos: Option<usize>,
}

/// Recover the site table from the rule expressions (pattern r([k, F(t([k, ARG]))])).
fn sites_of(scn: &Scenario) -> Result<(BTreeMap<i64, SiteInfo>, Vec<Vec<i64>>), String> {
    fn walk(x: &X, rule: usize, top: Option<usize>, out: &mut BTreeMap<i64, SiteInfo>) -> Result<Option<i64>, String> {
        if let X::Call(rn, inner) = x {
            if rn == "r" {
                if let X::Vec(items) = &**inner {
                    if let [X::Val(XV::I(k)), X::Call(f, targ)] = &items[..] {
                        if let X::Call(tn, tinner) = &**targ {
                            if tn == "u" {
                                walk_arg(tinner, rule, out)?;
                                if out.insert(*k, SiteInfo { f: f.clone(), rule, top_pos: top }).is_some() {
                                    return Err(format!("site {k} appears twice"));
                                }
                                return Ok(Some(*k));
                            }
                            if tn == "t" {
                                if let X::Vec(titems) = &**tinner {
                                    if let [X::Val(XV::I(k2)), arg] = &titems[..] {
                                        if k == k2 {
                                            walk_arg(arg, rule, out)?;
                                            if out.insert(*k, SiteInfo { f: f.clone(), rule, top_pos: top }).is_some() {
                                                return Err(format!("site {k} appears twice"));
                                            }
                                            return Ok(Some(*k));
                                        }
                                    }
                                }
                            }
                        }
                    }
                }
            }
        }
        Err("expression does not follow the traced-site pattern".into())
    }
    fn walk_arg(x: &X, rule: usize, out: &mut BTreeMap<i64, SiteInfo>) -> Result<(), String> {
        match x {
            X::Call(n, _) if n == "r" => walk(x, rule, None, out).map(|_| ()),
            X::Call(..) => Err("unexpected call inside a site argument".into()),
            _ => {
                for c in x.children() {
                    walk_arg(c, rule, out)?;
                }
                Ok(())
            }
        }
    }
    let mut out = BTreeMap::new();
    let mut tops = vec![];
    for (ri, r) in scn.rules.iter().enumerate() {
        let X::Vec(items) = &r.expr else { return Err("rule is not a list of sites".into()) };
        let mut ks = vec![];
        for (pos, it) in items.iter().enumerate() {
            let k = walk(it, ri, Some(pos), &mut out)?.unwrap();
            ks.push(k);
        }
        tops.push(ks);
    }
    Ok((out, tops))
}

/// Split a canonical `[i<k>,<rest>]` argument of a tracer into (k, rest).
fn split_tracer_arg(arg: &str) -> Option<(i64, &str)> {
    let inner = arg.strip_prefix("[i")?.strip_suffix(']')?;
    let (k, rest) = inner.split_once(',')?;
    Some((k.parse().ok()?, rest))
}

#[derive(Debug)]
enum St {
    Idle,
    /// t(k, a) seen and returned: the call of F (or a cache hit) must follow
    AfterT { k: i64, a: String },
    /// F invoked, waiting for its Return
    InF { k: i64, a: String, inv: u64, cacheable: bool },
    /// F returned Ok(v) or was served from the cache: r(k, v) must follow
    NeedR { k: i64, v: String },
    /// inside t or r themselves
    InTracer { next: Box<St>, inv: u64 },
}

pub fn check(scn: &Scenario, c: &mut Counters) -> Verdict {
    let (sites, tops) = match sites_of(scn) {
        Ok(s) => s,
        Err(e) => return Verdict::harness(e),
    };
    let out = match run(scn) {
        Ok(o) => o,
        Err(e) => return Verdict::harness(e),
    };
    c.absorb_run(&out);
    if out.lost_wakeup.is_some() || out.budget_exhausted {
        // liveness under schedules is C12's business
        c.bump("skipped.liveness");
        return Verdict::skip("evaluation did not finish under this schedule (C12)".into());
    }
    if scn.functions.iter().any(|f| f.name == "u") {
        return check_anon(scn, &out, &sites, &tops, c);
    }
    let cacheable: HashMap<&str, bool> = scn.functions.iter().map(|f| (f.name.as_str(), f.cacheable)).collect();
    let dynamic: HashMap<&str, u32> = scn.functions.iter().filter_map(|f| f.cacheable_first.map(|n| (f.name.as_str(), n))).collect();
    let ntasks = scn.tasks.len();
    let mut sig = 0u64;
    let mut nontrivial = false;

    for task in 0..ntasks {
        let mut cache: HashMap<(String, String), String> = HashMap::new();
        let mut distinct_keys_warned = false;
        // invocations of each function so far in this evaluation (for dynamic `cacheable()`)
        let mut invoked: HashMap<String, u32> = HashMap::new();
        let declared_cacheable = |f: &str, invoked: &HashMap<String, u32>| -> bool {
            match dynamic.get(f) {
                Some(n) => invoked.get(f).copied().unwrap_or(0) < *n,
                None => *cacheable.get(f).unwrap_or(&false),
            }
        };
        let mut failed_keys: HashMap<(String, String), u32> = HashMap::new();
        let mut observed_r: HashMap<i64, String> = HashMap::new();
        let mut failed_site: HashMap<usize, Vec<(i64, String, String)>> = HashMap::new(); // rule -> (site, fn, msg)*
        let mut st = St::Idle;
        let mut hist = String::new();
        let abandoned = !matches!(out.ends[task], TaskEnd::Finished(_));
        for ev in out.log.iter() {
            let (etask, is_invoke) = match ev {
                Ev::Invoke { task, .. } => (*task, true),
                Ev::Return { task, .. } | Ev::Cancel { task, .. } | Ev::Panic { task, .. } => (*task, false),
                _ => continue,
            };
            if etask != task {
                continue;
            }
            if let Ev::Cancel { .. } | Ev::Panic { .. } = ev {
                if !abandoned {
                    return Verdict::violation("call-dropped", format!("evaluation {task} finished but one of its calls was dropped midway"));
                }
                st = St::Idle;
                continue;
            }
            let _ = is_invoke;
            st = match (st, ev) {
                (St::Idle, Ev::Invoke { f, arg, inv, .. }) if f == "t" => {
                    let Some((k, a)) = split_tracer_arg(arg) else { return Verdict::harness(format!("tracer argument {arg}")) };
                    if !sites.contains_key(&k) {
                        return Verdict::harness(format!("unknown site {k}"));
                    }
                    St::InTracer { next: Box::new(St::AfterT { k, a: a.to_string() }), inv: *inv }
                }
                (St::InTracer { next, inv }, Ev::Return { inv: i2, ok: true, .. }) if inv == *i2 => *next,
                (St::AfterT { k, a }, Ev::Invoke { f, arg, inv, .. }) => {
                    let site = &sites[&k];
                    let is_cacheable = declared_cacheable(&site.f, &invoked);
                    if dynamic.contains_key(site.f.as_str()) && !is_cacheable && cache.contains_key(&(site.f.clone(), a.clone())) {
                        c.bump("hit.call_after_function_stopped_declaring_itself_cacheable");
                    }
                    let entry = if is_cacheable { cache.get(&(site.f.clone(), a.clone())).cloned() } else { None };
                    if f == "r" {
                        // no invocation of F: only legal as a cache hit with exactly the remembered value
                        let Some((k2, v)) = split_tracer_arg(arg) else { return Verdict::harness(format!("tracer argument {arg}")) };
                        match entry {
                            Some(v0) if k2 == k && v == v0 => {
                                hist.push('h');
                                c.bump("hit.cache_hit");
                                if failed_keys.contains_key(&(site.f.clone(), a.clone())) {
                                    c.bump("hit.cache_hit_after_earlier_failure_of_same_key");
                                }
                                nontrivial = true;
                                observed_r.insert(k, v.to_string());
                                St::InTracer { next: Box::new(St::Idle), inv: *inv }
                            }
                            Some(v0) => {
                                return Verdict::violation(
                                    "cache-hit-wrong-value",
                                    format!("site {k}: {}({a}) | observed {v} but the remembered result of that call is {v0}", site.f),
                                )
                            }
                            None => {
                                let why = if is_cacheable { "no successful call of that (function, argument) earlier in this evaluation" } else { "the function is not cacheable" };
                                return Verdict::violation(
                                    "result-without-invocation",
                                    format!("site {k}: {}({a}) in evaluation {task} | observed {v} without the function being invoked; {why}", site.f),
                                );
                            }
                        }
                    } else if *f == site.f {
                        if let Some(v0) = entry {
                            return Verdict::violation(
                                "invoked-again-despite-cache",
                                format!("site {k}: cacheable {}({a}) | invoked again although this evaluation already holds {v0}", site.f),
                            );
                        }
                        if *arg != a {
                            return Verdict::violation(
                                "invoked-with-other-argument",
                                format!("site {k}: {} | invoked with {arg}, the site's argument is {a}", site.f),
                            );
                        }
                        *invoked.entry(site.f.clone()).or_insert(0) += 1;
                        St::InF { k, a, inv: *inv, cacheable: is_cacheable }
                    } else if f == "t" {
                        return Verdict::violation(
                            "call-skipped",
                            format!("site {k}: {}({a}) in evaluation {task} | neither invoked nor served from this evaluation's cache; the next site started instead", site.f),
                        );
                    } else {
                        return Verdict::violation(
                            "wrong-function-invoked",
                            format!("site {k} calls {} | {f}({arg}) was invoked instead", site.f),
                        );
                    }
                }
                (St::InF { k, a, inv, cacheable: is_cacheable }, Ev::Return { inv: i2, ok, val, .. }) if inv == *i2 => {
                    let site = &sites[&k];
                    if *ok {
                        hist.push(if is_cacheable { 'm' } else { 'u' });
                        if is_cacheable {
                            cache.insert((site.f.clone(), a.clone()), val.clone());
                            if cache.len() >= 256 && !distinct_keys_warned {
                                distinct_keys_warned = true;
                                c.bump("hit.evaluation_with_256_or_more_distinct_cached_calls");
                            }
                            if failed_keys.contains_key(&(site.f.clone(), a.clone())) {
                                c.bump("hit.reinvoked_after_failure_of_same_key");
                                nontrivial = true;
                            }
                            if cache.keys().any(|(f2, a2)| *f2 != site.f && *a2 == a) {
                                c.bump("hit.same_argument_other_function");
                                nontrivial = true;
                            }
                            if cache.keys().any(|(f2, a2)| *f2 == site.f && *a2 != a) {
                                c.bump("hit.same_function_other_argument");
                                nontrivial = true;
                            }
                        } else {
                            c.bump("hit.uncached_call");
                        }
                        St::NeedR { k, v: val.clone() }
                    } else {
                        hist.push('f');
                        *failed_keys.entry((site.f.clone(), a.clone())).or_insert(0) += 1;
                        failed_site.entry(site.rule).or_default().push((k, site.f.clone(), val.clone()));
                        St::Idle
                    }
                }
                (St::NeedR { k, v }, Ev::Invoke { f, arg, inv, .. }) => {
                    let Some((k2, v2)) = split_tracer_arg(arg) else { return Verdict::harness(format!("tracer argument {arg}")) };
                    if f != "r" || k2 != k {
                        return Verdict::violation("site-result-not-observed", format!("site {k} | expected its result to be consumed, saw {f}({arg})"));
                    }
                    if v2 != v {
                        return Verdict::violation(
                            "call-result-altered",
                            format!("site {k}: {} | the function returned {v} but the expression observed {v2}", sites[&k].f),
                        );
                    }
                    observed_r.insert(k, v);
                    St::InTracer { next: Box::new(St::Idle), inv: *inv }
                }
                (St::InF { .. }, Ev::Invoke { .. }) => {
                    c.bump("skipped.overlapping_calls");
                    return Verdict::skip("calls of one evaluation overlap (C05)".into());
                }
                (St::AfterT { k, a }, _) | (St::InF { k, a, .. }, _) => {
                    return Verdict::violation(
                        "call-skipped",
                        format!("site {k}: {}({a}) in evaluation {task} | neither invoked nor served from this evaluation's cache; next event {ev:?}", sites[&k].f),
                    );
                }
                (St::Idle, Ev::Invoke { f, arg, .. }) => {
                    return Verdict::violation("untraced-invocation", format!("{f}({arg}) invoked outside any traced site"));
                }
                (St::InTracer { .. }, Ev::Invoke { .. }) => {
                    // two calls of one evaluation in flight at once: the evaluation is not sequential
                    // (C05's business); the per-evaluation site protocol cannot be followed
                    c.bump("skipped.overlapping_calls");
                    return Verdict::skip("calls of one evaluation overlap (C05)".into());
                }
                (s, e) => return Verdict::harness(format!("history checker lost: state {s:?} event {e:?}")),
            };
        }
        // a site left open at the end: the next thing that happened was the end of the rule
        if !abandoned {
            match &st {
                St::Idle => {}
                St::AfterT { k, a } => {
                    return Verdict::violation(
                        "call-skipped",
                        format!("site {k}: {}({a}) in evaluation {task} | neither invoked nor served from this evaluation's cache (evaluation ended)", sites[k].f),
                    );
                }
                other => return Verdict::violation("site-left-open", format!("evaluation {task} finished in checker state {other:?}")),
            }
        }

        // ---- outcome justification
        let outcomes = match &out.ends[task] {
            TaskEnd::Finished(TaskResult::Outcomes(o)) => o,
            TaskEnd::Finished(other) => {
                c.bump("skipped.call_failed");
                return Verdict::skip(format!("evaluate_value returned {other:?} (C09)"));
            }
            TaskEnd::ForeignPanic(m) => return Verdict::skip(format!("panic during evaluation: {m}")),
            _ => {
                hist.push('x');
                sig = combine(sig, hash_str(&hist));
                continue;
            }
        };
        if outcomes.len() != scn.rules.len() || outcomes.iter().zip(scn.rules.iter()).any(|(o, r)| o.rule_name != r.name) {
            c.bump("skipped.outcome_shape");
            return Verdict::skip("outcomes do not line up with the rules (C09)".into());
        }
        for (ri, o) in outcomes.iter().enumerate() {
            match &o.value {
                Res::Ok(v) => {
                    let mut want = String::from("[");
                    for (i, k) in tops[ri].iter().enumerate() {
                        let Some(v) = observed_r.get(k) else {
                            return Verdict::violation(
                                "outcome-not-justified",
                                format!("rule {ri} of evaluation {task} succeeded with {v} | site {k} observed no result in this evaluation (values minted by an earlier evaluation?)", ),
                            );
                        };
                        if i > 0 {
                            want.push(',');
                        }
                        want.push_str(v);
                    }
                    want.push(']');
                    if *v != want {
                        return Verdict::violation(
                            "outcome-not-justified",
                            format!("rule {ri} of evaluation {task} | outcome {v}, the results its sites observed in this evaluation are {want}"),
                        );
                    }
                }
                Res::Err(e) => {
                    let Some(failures) = failed_site.get(&ri) else {
                        if e.class != "UserFunctionError" {
                            // the rule failed for a reason that is no user-function failure (a limit, a
                            // variant this harness does not know): outside what C11 states
                            c.bump("skipped.rule_failed_for_other_reason");
                            return Verdict::skip(format!("rule {ri} failed with {e:?} without any call failing"));
                        }
                        return Verdict::violation(
                            "error-without-failed-call",
                            format!("rule {ri} of evaluation {task} | failed with {e:?} although no call of this rule failed in this evaluation"),
                        );
                    };
                    c.bump("hit.user_function_error_outcome");
                    // which of several failed calls of the rule surfaces is a matter of evaluation order (C05);
                    // the outcome must faithfully report one of them
                    let (k, f, msg) = &failures[0];
                    if e.class != "UserFunctionError" {
                        return Verdict::violation(
                            "failure-not-user-function-error",
                            format!("site {k}: {f} failed with {msg:?} | the rule's outcome is {e:?}"),
                        );
                    }
                    if !failures.iter().any(|(_, f, _)| e.payload.first() == Some(f)) {
                        return Verdict::violation(
                            "failure-names-wrong-function",
                            format!("site {k}: {f} failed | the error outcome names {:?}", e.payload.first()),
                        );
                    }
                    if e.payload.get(1).map(|s| s.as_str()) == Some("<original error lost>") {
                        return Verdict::violation(
                            "original-error-lost",
                            format!("site {k}: {f} failed with {msg:?} | the typed error is neither the outcome's source nor in its chain"),
                        );
                    }
                    if !failures.iter().any(|(_, f, msg)| e.payload.first() == Some(f) && e.payload.get(1) == Some(f) && e.payload.get(2) == Some(msg)) {
                        return Verdict::violation(
                            "failure-carries-other-error",
                            format!("site {k}: {f} failed with {msg:?} | the outcome carries {:?}", &e.payload[1..]),
                        );
                    }
                }
            }
        }
        sig = combine(sig, hash_str(&hist));
        if out.ends[..task].iter().any(|e| !matches!(e, TaskEnd::NotStarted)) {
            c.bump("hit.evaluation_after_earlier_evaluation");
        }
    }
    if scn.faults.iter().any(|f| matches!(f, Fault::CancelAfterPending { .. })) && out.stats.cancel_at_point > 0 {
        c.bump("hit.abandoned_then_retried");
    }
    Verdict::pass(if nontrivial { Some(sig) } else { None })
}


// ------------------------------------------------ the anonymous-tracer form
//
// Sites of the form r([k, F(u(ARG))]): `u` (non-cacheable, returns its argument) logs the actual
// argument but not the site, so the site — and with it the function a cache hit belongs to — is
// only known when `r` reports. A separate, simpler state machine; everything else as above.

#[derive(Debug)]
enum AnonSt {
    Idle,
    InU { a: String, inv: u64 },
    AfterU { a: String },
    InF { f: String, a: String, inv: u64, cacheable: bool },
    NeedR { f: String, v: String },
    InR { inv: u64 },
}

fn check_anon(
    scn: &Scenario,
    out: &crate::exec::RunOut,
    sites: &BTreeMap<i64, SiteInfo>,
    tops: &[Vec<i64>],
    c: &mut Counters,
) -> Verdict {
    c.bump("runs.anonymous_tracer_form");
    let cacheable: HashMap<&str, bool> = scn.functions.iter().map(|f| (f.name.as_str(), f.cacheable)).collect();
    let dynamic: HashMap<&str, u32> = scn.functions.iter().filter_map(|f| f.cacheable_first.map(|n| (f.name.as_str(), n))).collect();
    let mut sig = 0u64;
    let mut nontrivial = false;
    for task in 0..scn.tasks.len() {
        let mut cache: HashMap<(String, String), String> = HashMap::new();
        let mut invoked: HashMap<String, u32> = HashMap::new();
        let mut observed_r: HashMap<i64, String> = HashMap::new();
        let mut failures: Vec<(String, String)> = vec![];
        let mut hist = String::new();
        let mut st = AnonSt::Idle;
        let abandoned = !matches!(out.ends[task], TaskEnd::Finished(_));
        let declared = |f: &str, invoked: &HashMap<String, u32>| -> bool {
            match dynamic.get(f) {
                Some(n) => invoked.get(f).copied().unwrap_or(0) < *n,
                None => *cacheable.get(f).unwrap_or(&false),
            }
        };
        for ev in out.log.iter() {
            let etask = match ev {
                Ev::Invoke { task, .. } | Ev::Return { task, .. } | Ev::Cancel { task, .. } | Ev::Panic { task, .. } => *task,
                _ => continue,
            };
            if etask != task {
                continue;
            }
            if let Ev::Cancel { .. } | Ev::Panic { .. } = ev {
                if !abandoned {
                    return Verdict::violation("call-dropped", format!("evaluation {task} finished but one of its calls was dropped midway"));
                }
                st = AnonSt::Idle;
                continue;
            }
            st = match (st, ev) {
                (AnonSt::Idle, Ev::Invoke { f, arg, inv, .. }) if f == "u" => AnonSt::InU { a: arg.clone(), inv: *inv },
                (AnonSt::Idle, Ev::Invoke { f, arg, .. }) if f == "r" => {
                    let k = split_tracer_arg(arg).map(|x| x.0);
                    return Verdict::violation(
                        "argument-not-evaluated",
                        format!("site {k:?} in evaluation {task} | its result {arg} was observed although the call's argument expression was not evaluated (the whole call expression was skipped)"),
                    );
                }
                (AnonSt::Idle, Ev::Invoke { f, arg, .. }) => {
                    return Verdict::violation("untraced-invocation", format!("{f}({arg}) invoked outside any traced site"));
                }
                (AnonSt::InU { a, inv }, Ev::Return { inv: i2, ok: true, .. }) if inv == *i2 => AnonSt::AfterU { a },
                (AnonSt::AfterU { a }, Ev::Invoke { f, arg, inv, .. }) if f == "r" => {
                    // no invocation: only legal as a hit in this evaluation's cache, for the site's function
                    let Some((k, v)) = split_tracer_arg(arg) else { return Verdict::harness(format!("tracer argument {arg}")) };
                    let Some(site) = sites.get(&k) else { return Verdict::harness(format!("unknown site {k}")) };
                    let is_c = declared(&site.f, &invoked);
                    match if is_c { cache.get(&(site.f.clone(), a.clone())) } else { None } {
                        Some(v0) if v == v0 => {
                            hist.push('h');
                            c.bump("hit.cache_hit");
                            c.bump("hit.cache_hit_on_a_textually_identical_call");
                            nontrivial = true;
                            observed_r.insert(k, v.to_string());
                            AnonSt::InR { inv: *inv }
                        }
                        Some(v0) => {
                            return Verdict::violation(
                                "cache-hit-wrong-value",
                                format!("site {k}: {}({a}) | observed {v} but the remembered result of that call is {v0}", site.f),
                            )
                        }
                        None => {
                            let why = if is_c { "no successful call of that (function, argument) earlier in this evaluation" } else { "the function does not declare itself cacheable" };
                            return Verdict::violation(
                                "result-without-invocation",
                                format!("site {k}: {}({a}) in evaluation {task} | observed {v} without the function being invoked; {why}", site.f),
                            );
                        }
                    }
                }
                (AnonSt::AfterU { a }, Ev::Invoke { f, arg, .. }) if f == "u" => {
                    return Verdict::violation(
                        "call-skipped",
                        format!("a call with argument {a} in evaluation {task} | neither invoked nor served from this evaluation's cache; the next site (argument {arg}) started instead"),
                    );
                }
                (AnonSt::AfterU { a }, Ev::Invoke { f, arg, inv, .. }) => {
                    let is_c = declared(f, &invoked);
                    if is_c {
                        if let Some(v0) = cache.get(&(f.clone(), a.clone())) {
                            return Verdict::violation(
                                "invoked-again-despite-cache",
                                format!("cacheable {f}({a}) | invoked again although this evaluation already holds {v0}"),
                            );
                        }
                    }
                    if *arg != a {
                        return Verdict::violation("invoked-with-other-argument", format!("{f} | invoked with {arg}, the call's argument is {a}"));
                    }
                    *invoked.entry(f.clone()).or_insert(0) += 1;
                    AnonSt::InF { f: f.clone(), a, inv: *inv, cacheable: is_c }
                }
                (AnonSt::InF { f, a, inv, cacheable: is_c }, Ev::Return { inv: i2, ok, val, .. }) if inv == *i2 => {
                    if *ok {
                        hist.push(if is_c { 'm' } else { 'u' });
                        if is_c {
                            cache.insert((f.clone(), a), val.clone());
                        }
                        AnonSt::NeedR { f, v: val.clone() }
                    } else {
                        hist.push('f');
                        failures.push((f, val.clone()));
                        AnonSt::Idle
                    }
                }
                (AnonSt::NeedR { f, v }, Ev::Invoke { f: rf, arg, inv, .. }) => {
                    let Some((k, v2)) = split_tracer_arg(arg) else { return Verdict::harness(format!("tracer argument {arg}")) };
                    let Some(site) = sites.get(&k) else { return Verdict::harness(format!("unknown site {k}")) };
                    if rf != "r" {
                        return Verdict::violation("site-result-not-observed", format!("{f} returned {v} | expected its result to be consumed, saw {rf}({arg})"));
                    }
                    if site.f != f {
                        return Verdict::violation("wrong-function-invoked", format!("site {k} calls {} | {f} was invoked instead", site.f));
                    }
                    if v2 != v {
                        return Verdict::violation("call-result-altered", format!("site {k}: {f} | the function returned {v} but the expression observed {v2}"));
                    }
                    observed_r.insert(k, v);
                    AnonSt::InR { inv: *inv }
                }
                (AnonSt::InR { inv }, Ev::Return { inv: i2, ok: true, .. }) if inv == *i2 => AnonSt::Idle,
                (AnonSt::InU { .. }, Ev::Invoke { .. }) | (AnonSt::InF { .. }, Ev::Invoke { .. }) | (AnonSt::InR { .. }, Ev::Invoke { .. }) => {
                    c.bump("skipped.overlapping_calls");
                    return Verdict::skip("calls of one evaluation overlap (C05)".into());
                }
                (AnonSt::AfterU { a }, e) => {
                    return Verdict::violation("call-skipped", format!("a call with argument {a} in evaluation {task} | neither invoked nor served from the cache; next event {e:?}"));
                }
                (s, e) => return Verdict::harness(format!("anonymous-form checker lost: state {s:?} event {e:?}")),
            };
        }
        if !abandoned {
            match &st {
                AnonSt::Idle => {}
                AnonSt::AfterU { a } => {
                    return Verdict::violation("call-skipped", format!("a call with argument {a} in evaluation {task} | neither invoked nor served from the cache (evaluation ended)"));
                }
                other => return Verdict::violation("site-left-open", format!("evaluation {task} finished in checker state {other:?}")),
            }
        }
        let outcomes = match &out.ends[task] {
            TaskEnd::Finished(TaskResult::Outcomes(o)) => o,
            TaskEnd::Finished(other) => {
                c.bump("skipped.call_failed");
                return Verdict::skip(format!("evaluate_value returned {other:?} (C09)"));
            }
            TaskEnd::ForeignPanic(m) => return Verdict::skip(format!("panic during evaluation: {m}")),
            _ => {
                hist.push('x');
                sig = combine(sig, hash_str(&hist));
                continue;
            }
        };
        if outcomes.len() != scn.rules.len() || outcomes.iter().zip(scn.rules.iter()).any(|(o, r)| o.rule_name != r.name) {
            c.bump("skipped.outcome_shape");
            return Verdict::skip("outcomes do not line up with the rules (C09)".into());
        }
        for (ri, o) in outcomes.iter().enumerate() {
            match &o.value {
                Res::Ok(v) => {
                    let mut want = String::from("[");
                    for (i, k) in tops[ri].iter().enumerate() {
                        let Some(vk) = observed_r.get(k) else {
                            return Verdict::violation(
                                "outcome-not-justified",
                                format!("rule {ri} of evaluation {task} succeeded with {v} | site {k} observed no result in this evaluation"),
                            );
                        };
                        if i > 0 {
                            want.push(',');
                        }
                        want.push_str(vk);
                    }
                    want.push(']');
                    if *v != want {
                        return Verdict::violation(
                            "outcome-not-justified",
                            format!("rule {ri} of evaluation {task} | outcome {v}, the results its sites observed in this evaluation are {want}"),
                        );
                    }
                }
                Res::Err(e) => {
                    if failures.is_empty() {
                        if e.class != "UserFunctionError" {
                            c.bump("skipped.rule_failed_for_other_reason");
                            return Verdict::skip(format!("rule {ri} failed with {e:?} without any call failing"));
                        }
                        return Verdict::violation(
                            "error-without-failed-call",
                            format!("rule {ri} of evaluation {task} | failed with {e:?} although no call failed in this evaluation"),
                        );
                    }
                    c.bump("hit.user_function_error_outcome");
                    let (f, msg) = &failures[0];
                    if e.class != "UserFunctionError" {
                        return Verdict::violation("failure-not-user-function-error", format!("{f} failed with {msg:?} | the rule's outcome is {e:?}"));
                    }
                    if !failures.iter().any(|(f, _)| e.payload.first() == Some(f)) {
                        return Verdict::violation("failure-names-wrong-function", format!("{f} failed | the error outcome names {:?}", e.payload.first()));
                    }
                    if e.payload.get(1).map(|s| s.as_str()) == Some("<original error lost>") {
                        return Verdict::violation("original-error-lost", format!("{f} failed with {msg:?} | the typed error is neither the outcome's source nor in its chain"));
                    }
                    if !failures.iter().any(|(f, msg)| e.payload.first() == Some(f) && e.payload.get(1) == Some(f) && e.payload.get(2) == Some(msg)) {
                        return Verdict::violation("failure-carries-other-error", format!("{f} failed with {msg:?} | the outcome carries {:?}", &e.payload[1..]));
                    }
                }
            }
        }
        sig = combine(sig, hash_str(&hist));
    }
    Verdict::pass(if nontrivial { Some(combine(sig, 0xA707)) } else { None })
}

//! Grammar- and type-directed expression generator shared by the workloads.
//! Asks for an expression of a target type so that most runs evaluate deep
//! into the tree; plants ill-typed nodes, error leaves and `none` with
//! controlled (swarm-varied) probabilities. Operand values deliberately stay
//! far from numeric extremes.

use crate::rng::Rng;
use crate::spec::{FnSpec, ScriptOut, ScriptRow, Ty};
use crate::xexpr::{BinOp, UnOp, XIdx, X};
use crate::xv::XV;

pub const ALL_TYS: [Ty; 10] = [
    Ty::Bool,
    Ty::Int,
    Ty::Float,
    Ty::Dec,
    Ty::Str,
    Ty::DateTime,
    Ty::Duration,
    Ty::Vec,
    Ty::Map,
    Ty::NoneT,
];

pub fn fn_for(ty: Ty) -> &'static str {
    match ty {
        Ty::Bool => "pbool",
        Ty::Int => "pint",
        Ty::Float => "pfloat",
        Ty::Dec => "pdec",
        Ty::Str => "pstr",
        Ty::DateTime => "pdt",
        Ty::Duration => "pdur",
        Ty::Vec => "pvec",
        Ty::Map => "pmap",
        Ty::NoneT => "pnone",
    }
}

pub fn ty_of(v: &XV) -> Ty {
    match v {
        XV::N => Ty::NoneT,
        XV::B(_) => Ty::Bool,
        XV::I(_) => Ty::Int,
        XV::F(_) => Ty::Float,
        XV::D(..) => Ty::Dec,
        XV::S(_) => Ty::Str,
        XV::T(_) => Ty::DateTime,
        XV::U(_) => Ty::Duration,
        XV::V(_) => Ty::Vec,
        XV::M(_) => Ty::Map,
    }
}

#[derive(Clone, Debug)]
pub struct GenCfg {
    pub max_depth: u32,
    pub max_nodes: usize,
    /// per-mille probabilities
    pub p_probe_leaf: u64,
    pub p_err_leaf: u64,
    pub p_ill_typed: u64,
    pub p_none_leaf: u64,
    pub p_fail_site: u64,
    pub p_nested_call: u64,
    pub p_lazy_node: u64,
    pub max_probes: usize,
    /// `x in y` may be produced (text form); with at most one effectful side
    pub allow_in: bool,
    /// call sites may share (function, argument) with earlier ones
    pub p_repeat_site: u64,
    /// unknown functions may be called (with a constant argument)
    pub allow_unknown_fn: bool,
    /// per-mille: a long left-nested chain of one operator (and / or / +) with up to `max_chain` operands
    pub p_chain: u64,
    pub max_chain: usize,
    /// per-mille: a tower of nested unary operators of up to `max_tower` levels around a leaf
    pub p_tower: u64,
    pub max_tower: usize,
    /// per-mille: reuse an earlier call sub-expression verbatim (textually identical calls)
    pub p_repeat_subtree: u64,
}

impl GenCfg {
    pub fn swarm(rng: &mut Rng) -> GenCfg {
        GenCfg {
            max_depth: 2 + rng.below(4) as u32,
            max_nodes: 30,
            p_probe_leaf: *rng.pick(&[150, 350, 600, 850]),
            p_err_leaf: *rng.pick(&[0, 20, 60, 150]),
            p_ill_typed: *rng.pick(&[0, 15, 50, 120]),
            p_none_leaf: *rng.pick(&[0, 30, 100]),
            p_fail_site: *rng.pick(&[0, 40, 120, 300]),
            p_nested_call: *rng.pick(&[0, 100, 300]),
            p_lazy_node: *rng.pick(&[200, 450, 700]),
            max_probes: 12,
            allow_in: false,
            p_repeat_site: 0,
            allow_unknown_fn: true,
            p_chain: *rng.pick(&[0, 0, 30, 80]),
            max_chain: 48,
            p_tower: 0,
            max_tower: 0,
            p_repeat_subtree: 0,
        }
    }
}

#[derive(Clone, Debug)]
pub struct Site {
    pub k: i64,
    pub ty: Ty,
    pub out: ScriptOut,
}

pub struct Gen<'r> {
    pub rng: &'r mut Rng,
    pub cfg: GenCfg,
    pub refs: Vec<(String, Ty)>,
    pub syms: Vec<(String, Ty)>,
    pub sites: Vec<Site>,
    pub next_site: i64,
    pub nodes: usize,
    pub probes: usize,
    /// call sub-expressions generated so far, by result type
    pub subtrees: Vec<(Ty, X)>,
}

const STRS: [&str; 8] = ["", "a", "ab", "Abc", " pad ", "12", "xyz", "a\"q"];
const KEYS: [&str; 6] = ["b", "a", "Z", "m", "k2", "c_c"];

impl<'r> Gen<'r> {
    pub fn new(rng: &'r mut Rng, cfg: GenCfg, refs: Vec<(String, Ty)>, syms: Vec<(String, Ty)>) -> Self {
        Gen { rng, cfg, refs, syms, sites: vec![], next_site: 100, nodes: 0, probes: 0, subtrees: vec![] }
    }

    fn pm(&mut self, p: u64) -> bool {
        self.rng.chance(p, 1000)
    }

    pub fn const_of(&mut self, ty: Ty) -> XV {
        match ty {
            Ty::Bool => XV::B(self.rng.chance(1, 2)),
            Ty::Int => XV::I(self.rng.range(0, 9)),
            Ty::Float => XV::F(self.rng.range(0, 12) as f64 * 0.25),
            Ty::Dec => XV::D(self.rng.range(0, 60), 1),
            Ty::Str => XV::s(self.rng.pick::<&str>(&STRS)),
            Ty::DateTime => XV::T(1_600_000_000 + self.rng.range(0, 1_000_000)),
            Ty::Duration => XV::U(self.rng.range(0, 100_000)),
            Ty::Vec => {
                let n = self.rng.usize(3);
                XV::V((0..n).map(|_| XV::I(self.rng.range(0, 4))).collect())
            }
            Ty::Map => XV::M(vec![("a".into(), XV::I(self.rng.range(0, 4)))]),
            Ty::NoneT => XV::N,
        }
    }

    /// A constant expression of the type (datetime/duration spelled through casts).
    fn const_expr(&mut self, ty: Ty) -> X {
        match ty {
            Ty::DateTime => {
                let t = 1_600_000_000 + self.rng.range(0, 1_000_000);
                X::un(UnOp::DateTime, X::int(t))
            }
            Ty::Duration => {
                let u = self.rng.range(0, 100_000);
                X::un(UnOp::Duration, X::int(u))
            }
            Ty::Vec => {
                let n = self.rng.usize(3);
                X::Vec((0..n).map(|_| X::int(self.rng.range(0, 4))).collect())
            }
            Ty::Map => X::Map(vec![("a".into(), X::int(self.rng.range(0, 4)))]),
            t => X::Val(self.const_of(t)),
        }
    }

    /// A probe call site asked to return `ty`.
    pub fn site(&mut self, ty: Ty, depth: u32) -> X {
        self.probes += 1;
        let fname = fn_for(ty);
        if self.pm(self.cfg.p_repeat_subtree) {
            let same: Vec<X> = self.subtrees.iter().filter(|(t, _)| *t == ty).map(|(_, x)| x.clone()).collect();
            if !same.is_empty() {
                return self.rng.pick(&same).clone();
            }
        }
        if depth > 0 && self.rng.chance(2, 3) {
            // dynamic argument: result comes from the function's default script
            let aty = *self.rng.pick(&ALL_TYS);
            let arg = if self.rng.chance(1, 2) { self.site(aty, depth - 1) } else { self.gen(aty, depth - 1) };
            let x = X::call(fname, arg);
            if self.subtrees.len() < 8 {
                self.subtrees.push((ty, x.clone()));
            }
            return x;
        }
        if !self.sites.is_empty() && self.pm(self.cfg.p_repeat_site) {
            let s = self.rng.pick(&self.sites).clone();
            return X::call(fn_for(s.ty), X::int(s.k));
        }
        let k = self.next_site;
        self.next_site += 1;
        let out = if self.pm(self.cfg.p_fail_site) {
            ScriptOut::Fail(format!("boom{k}"))
        } else if self.pm(self.cfg.p_none_leaf) {
            ScriptOut::Ok(XV::N)
        } else if self.pm(self.cfg.p_ill_typed) {
            let other = *self.rng.pick(&ALL_TYS);
            ScriptOut::Ok(self.const_of(other))
        } else {
            ScriptOut::Ok(self.const_of(ty))
        };
        self.sites.push(Site { k, ty, out });
        X::call(fname, X::int(k))
    }

    fn err_leaf(&mut self) -> X {
        match self.rng.below(8) {
            0 => X::bin(BinOp::Div, X::int(1), X::int(0)),
            7 => X::un(UnOp::Week, X::int(100_000_000_000_000)),
            1 => X::Ref("nosuchref".into()),
            2 => X::Sym("nosuchsym".into()),
            3 => X::un(UnOp::Not, X::int(1)),
            4 => X::un(UnOp::Int, X::Val(XV::s("abc"))),
            5 if self.cfg.allow_unknown_fn => X::call("nosuchfn", X::int(7)),
            _ => X::bin(BinOp::Rem, X::int(3), X::int(0)),
        }
    }

    fn leaf(&mut self, ty: Ty) -> X {
        if self.probes < self.cfg.max_probes && self.pm(self.cfg.p_probe_leaf) {
            return self.site(ty, 0);
        }
        if self.pm(self.cfg.p_none_leaf) {
            return X::Val(XV::N);
        }
        // an input reference or symbol of the right type, if any
        let refs: Vec<String> = self.refs.iter().filter(|(_, t)| *t == ty).map(|(n, _)| n.clone()).collect();
        let syms: Vec<String> = self.syms.iter().filter(|(_, t)| *t == ty).map(|(n, _)| n.clone()).collect();
        if ty == Ty::Map && !self.refs.is_empty() && self.rng.chance(1, 6) {
            return X::Ref("facts".into()); // the whole input
        }
        match self.rng.below(4) {
            0 if !refs.is_empty() => X::Ref(self.rng.pick(&refs).clone()),
            1 if !syms.is_empty() => X::Sym(self.rng.pick(&syms).clone()),
            _ => self.const_expr(ty),
        }
    }

    fn any_ty(&mut self) -> Ty {
        *self.rng.pick(&ALL_TYS)
    }

    fn ord_ty(&mut self) -> Ty {
        *self.rng.pick(&[Ty::Int, Ty::Int, Ty::Float, Ty::Dec, Ty::DateTime, Ty::Duration])
    }

    /// An expression meant to evaluate to `ty`.
    pub fn gen(&mut self, ty: Ty, depth: u32) -> X {
        self.nodes += 1;
        if self.pm(self.cfg.p_err_leaf) {
            return self.err_leaf();
        }
        let ty = if self.pm(self.cfg.p_ill_typed) { self.any_ty() } else { ty };
        if depth == 0 || self.nodes >= self.cfg.max_nodes {
            return self.leaf(ty);
        }
        if self.probes < self.cfg.max_probes && self.pm(self.cfg.p_nested_call / 2) {
            // a call whose argument is itself an expression (possibly another call)
            return self.site(ty, depth);
        }
        let d = depth - 1;
        if (ty == Ty::Bool || ty == Ty::Int) && self.pm(self.cfg.p_chain) {
            // a long left-nested chain of one operator; operands are leaves that (mostly) do not decide
            let n = 2 + self.rng.usize(self.cfg.max_chain.max(3) - 1);
            let op = if ty == Ty::Int { BinOp::Add } else if self.rng.chance(1, 2) { BinOp::And } else { BinOp::Or };
            let neutral = XV::B(op == BinOp::And);
            let mut items: Vec<X> = Vec::with_capacity(n);
            for _ in 0..n {
                let item = if ty == Ty::Int {
                    self.leaf(Ty::Int)
                } else if self.rng.chance(3, 4) {
                    if self.probes < self.cfg.max_probes + 40 && self.rng.chance(1, 3) {
                        // a probe scripted to return the non-deciding value
                        self.probes += 1;
                        let k = self.next_site;
                        self.next_site += 1;
                        self.sites.push(Site { k, ty: Ty::Bool, out: ScriptOut::Ok(neutral.clone()) });
                        X::call(fn_for(Ty::Bool), X::int(k))
                    } else {
                        X::Val(neutral.clone())
                    }
                } else {
                    self.leaf(Ty::Bool)
                };
                items.push(item);
            }
            return X::Chain(op, items);
        }
        if (ty == Ty::Int || ty == Ty::Bool) && self.cfg.max_tower > 0 && self.pm(self.cfg.p_tower) {
            let n = 1 + self.rng.usize(self.cfg.max_tower);
            let op = if ty == Ty::Int { UnOp::Neg } else { UnOp::Not };
            let x = self.site(ty, 0);
            return X::Tower(op, n as u32, Box::new(x));
        }
        // lazy constructs can produce any type (if) or bool (and/or/eq)
        if self.pm(self.cfg.p_lazy_node) {
            match (ty, self.rng.below(4)) {
                (_, 0) | (Ty::Str, _) | (Ty::Vec, _) | (Ty::Map, _) | (Ty::NoneT, _) | (Ty::Float, _) | (Ty::Dec, _)
                | (Ty::DateTime, _) | (Ty::Duration, _) | (Ty::Int, _) => {
                    let c = self.gen(Ty::Bool, d);
                    let t = self.gen(ty, d);
                    let e = self.gen(ty, d);
                    return X::iff(c, t, e);
                }
                (Ty::Bool, 1) => {
                    let a = self.gen(Ty::Bool, d);
                    let b = self.gen(Ty::Bool, d);
                    return X::bin(BinOp::And, a, b);
                }
                (Ty::Bool, 2) => {
                    let a = self.gen(Ty::Bool, d);
                    let b = self.gen(Ty::Bool, d);
                    return X::bin(BinOp::Or, a, b);
                }
                (Ty::Bool, _) => {
                    let t = self.any_ty();
                    // left is none fairly often: that is the lazy case of equality
                    let a = if self.rng.chance(1, 3) { self.gen(Ty::NoneT, d) } else { self.gen(t, d) };
                    let b = self.gen(t, d);
                    let op = if self.rng.chance(1, 2) { BinOp::Eq } else { BinOp::Neq };
                    return X::bin(op, a, b);
                }
            }
        }
        match ty {
            Ty::Bool => match self.rng.below(9) {
                0 => X::un(UnOp::Not, self.gen(Ty::Bool, d)),
                1 => {
                    let t = self.any_ty();
                    let op = if self.rng.chance(1, 2) { UnOp::IsSome } else { UnOp::IsNone };
                    X::un(op, self.gen(t, d))
                }
                2 | 3 => {
                    let t = self.ord_ty();
                    let op = *self.rng.pick(&[BinOp::Gt, BinOp::Gte, BinOp::Lt, BinOp::Lte]);
                    let a = self.gen(t, d);
                    let b = self.gen(t, d);
                    X::bin(op, a, b)
                }
                4 => {
                    let op = *self.rng.pick(&[BinOp::BitAnd, BinOp::BitOr, BinOp::BitXor]);
                    let a = self.gen(Ty::Bool, d);
                    let b = self.gen(Ty::Bool, d);
                    X::bin(op, a, b)
                }
                5 | 6 => {
                    let (cty, ity) = *self.rng.pick(&[
                        (Ty::Vec, Ty::Int),
                        (Ty::Str, Ty::Str),
                        (Ty::Map, Ty::Str),
                        (Ty::Int, Ty::Int),
                    ]);
                    if self.cfg.allow_in && self.rng.chance(1, 2) {
                        // `x in y`: at most one effectful side (which side is evaluated
                        // first is not fixed by the statement)
                        let (item, coll) = if self.rng.chance(1, 2) {
                            (self.const_expr(ity), self.gen(cty, d))
                        } else {
                            (self.gen(ity, d), self.const_expr(cty))
                        };
                        X::In(Box::new(item), Box::new(coll))
                    } else {
                        let c = self.gen(cty, d);
                        let i = self.gen(ity, d);
                        X::bin(BinOp::Contains, c, i)
                    }
                }
                7 => {
                    let items = vec![self.gen(Ty::Bool, d), self.gen(Ty::Bool, d)];
                    let pos = self.rng.usize(2);
                    X::Idx(Box::new(X::Vec(items)), XIdx::Pos(pos))
                }
                _ => self.leaf(Ty::Bool),
            },
            Ty::Int => match self.rng.below(12) {
                0 => X::un(UnOp::Neg, self.gen(Ty::Int, d)),
                1 => {
                    let t = *self.rng.pick(&[Ty::Int, Ty::Float, Ty::Dec, Ty::Str]);
                    let a = if t == Ty::Str { X::Val(XV::s(self.rng.pick::<&str>(&["12", "7", "abc"]))) } else { self.gen(t, d) };
                    X::un(UnOp::Int, a)
                }
                2 | 3 | 4 => {
                    let op = *self.rng.pick(&[BinOp::Add, BinOp::Sub, BinOp::Div, BinOp::Rem]);
                    let a = self.gen(Ty::Int, d);
                    let b = self.gen(Ty::Int, d);
                    X::bin(op, a, b)
                }
                5 => {
                    // products only of leaves: keeps magnitudes tiny
                    let a = self.leaf(Ty::Int);
                    let b = self.leaf(Ty::Int);
                    X::bin(BinOp::Mult, a, b)
                }
                6 => {
                    let op = *self.rng.pick(&[BinOp::BitAnd, BinOp::BitOr, BinOp::BitXor]);
                    let a = self.gen(Ty::Int, d);
                    let b = self.gen(Ty::Int, d);
                    X::bin(op, a, b)
                }
                7 => {
                    let op = *self.rng.pick(&[UnOp::Year, UnOp::Month, UnOp::Day, UnOp::Hour, UnOp::Minute, UnOp::Second]);
                    X::un(op, self.gen(Ty::DateTime, d))
                }
                8 => {
                    let op = *self.rng.pick(&[UnOp::Week, UnOp::Day, UnOp::Hour, UnOp::Minute, UnOp::Second]);
                    X::un(op, self.gen(Ty::Duration, d))
                }
                9 => {
                    let items = vec![self.gen(Ty::Int, d), self.gen(Ty::Int, d), self.gen(Ty::Int, d)];
                    let pos = self.rng.usize(4);
                    X::Idx(Box::new(X::Vec(items)), XIdx::Pos(pos))
                }
                10 => {
                    let m = self.gen(Ty::Map, d);
                    X::Idx(Box::new(m), XIdx::Field("a".into()))
                }
                _ => self.leaf(Ty::Int),
            },
            Ty::Float | Ty::Dec => {
                let cast = if ty == Ty::Float { UnOp::Float } else { UnOp::Dec };
                match self.rng.below(7) {
                    0 => X::un(UnOp::Neg, self.gen(ty, d)),
                    1 => {
                        let t = *self.rng.pick(&[Ty::Int, Ty::Float, Ty::Dec, Ty::Str]);
                        let a = if t == Ty::Str { X::Val(XV::s(self.rng.pick::<&str>(&["1.5", "2", "abc"]))) } else { self.gen(t, d) };
                        X::un(cast, a)
                    }
                    2 | 3 => {
                        let op = *self.rng.pick(&[BinOp::Add, BinOp::Sub, BinOp::Div, BinOp::Rem]);
                        let a = self.gen(ty, d);
                        let b = self.gen(ty, d);
                        X::bin(op, a, b)
                    }
                    4 => {
                        let a = self.leaf(ty);
                        let b = self.leaf(ty);
                        X::bin(BinOp::Mult, a, b)
                    }
                    5 => {
                        let op = *self.rng.pick(&[UnOp::Round, UnOp::Floor, UnOp::Fract]);
                        X::un(op, self.gen(ty, d))
                    }
                    _ => self.leaf(ty),
                }
            }
            Ty::Str => match self.rng.below(3) {
                0 | 1 => {
                    let op = *self.rng.pick(&[UnOp::Upper, UnOp::Lower, UnOp::Trim]);
                    X::un(op, self.gen(Ty::Str, d))
                }
                _ => self.leaf(Ty::Str),
            },
            Ty::DateTime => match self.rng.below(5) {
                0 => X::un(UnOp::DateTime, X::Val(XV::s(self.rng.pick::<&str>(&["2020-01-02T03:04:05Z", "2021-06-07T08:09:10Z", "nope"])))),
                1 => X::un(UnOp::DateTime, self.leaf(Ty::DateTime)),
                2 => {
                    let a = self.gen(Ty::DateTime, d);
                    let b = self.gen(Ty::Duration, d);
                    X::bin(BinOp::Add, a, b)
                }
                3 => {
                    let a = self.gen(Ty::DateTime, d);
                    let b = self.gen(Ty::Duration, d);
                    X::bin(BinOp::Sub, a, b)
                }
                _ => self.leaf(Ty::DateTime),
            },
            Ty::Duration => match self.rng.below(5) {
                0 => {
                    let op = *self.rng.pick(&[UnOp::Week, UnOp::Day, UnOp::Hour, UnOp::Minute, UnOp::Second, UnOp::Duration]);
                    X::un(op, self.leaf(Ty::Int))
                }
                1 => {
                    let a = self.gen(Ty::DateTime, d);
                    let b = self.gen(Ty::DateTime, d);
                    X::bin(BinOp::Sub, a, b)
                }
                2 => {
                    let a = self.gen(Ty::Duration, d);
                    let b = self.gen(Ty::Duration, d);
                    X::bin(BinOp::Sub, a, b)
                }
                3 => X::un(UnOp::Duration, self.leaf(Ty::Duration)),
                _ => self.leaf(Ty::Duration),
            },
            Ty::Vec if self.rng.chance(1, 12) => {
                // a long list of leaves: chunked / batched evaluation of many items would show here
                let n = 5 + self.rng.usize(10);
                let mut items = Vec::new();
                for _ in 0..n {
                    let t = *self.rng.pick(&[Ty::Int, Ty::Int, Ty::Bool, Ty::Str]);
                    items.push(self.leaf(t));
                }
                X::Vec(items)
            }
            Ty::Map if self.rng.chance(1, 12) => {
                let n = 5 + self.rng.usize(8);
                let mut keys: Vec<String> = (0..n).map(|i| format!("k{i}")).collect();
                let mut entries = Vec::new();
                while !keys.is_empty() {
                    let k = keys.swap_remove(self.rng.usize(keys.len()));
                    let t = *self.rng.pick(&[Ty::Int, Ty::Int, Ty::Bool, Ty::Str]);
                    entries.push((k, self.leaf(t)));
                }
                X::Map(entries)
            }
            Ty::Vec => match self.rng.below(4) {
                0 | 1 | 2 => {
                    let n = self.rng.usize(4);
                    let mut items = Vec::new();
                    for _ in 0..n {
                        let t = *self.rng.pick(&[Ty::Int, Ty::Int, Ty::Bool, Ty::Str, Ty::NoneT]);
                        items.push(self.gen(t, d));
                    }
                    X::Vec(items)
                }
                _ => self.leaf(Ty::Vec),
            },
            Ty::Map => match self.rng.below(4) {
                0 | 1 | 2 => {
                    // insertion order deliberately differs from key order
                    let n = 1 + self.rng.usize(3);
                    let mut keys: Vec<&str> = KEYS.to_vec();
                    let mut entries = Vec::new();
                    for i in 0..n {
                        let k = keys.remove(self.rng.usize(keys.len()));
                        let key = if i == 0 { "a" } else { k };
                        if entries.iter().any(|(kk, _): &(String, X)| kk == key) {
                            continue;
                        }
                        let t = *self.rng.pick(&[Ty::Int, Ty::Int, Ty::Bool, Ty::Str]);
                        entries.push((key.to_string(), self.gen(t, d)));
                    }
                    // rotate so that "a" is not always first in insertion order
                    let r = self.rng.usize(entries.len());
                    entries.rotate_left(r);
                    X::Map(entries)
                }
                _ => self.leaf(Ty::Map),
            },
            Ty::NoneT => match self.rng.below(4) {
                0 => {
                    let v = self.gen(Ty::Vec, d);
                    X::Idx(Box::new(v), XIdx::Pos(9))
                }
                1 => X::un(UnOp::Neg, self.gen(Ty::NoneT, d)),
                2 => {
                    let a = self.gen(Ty::NoneT, d);
                    let b = self.gen(Ty::Int, d);
                    X::bin(BinOp::Add, a, b)
                }
                _ => self.leaf(Ty::NoneT),
            },
        }
    }

    /// Function table for the sites generated so far: one function per result type.
    pub fn functions(&mut self, cacheable: &dyn Fn(Ty) -> bool, mix_tag: bool, mix_ordinal: bool, salt: u64) -> Vec<FnSpec> {
        ALL_TYS
            .iter()
            .map(|ty| {
                let mut f = FnSpec::new(fn_for(*ty), cacheable(*ty), ScriptOut::Typed(*ty));
                f.salt = salt;
                f.mix_tag = mix_tag;
                f.mix_ordinal = mix_ordinal;
                for s in self.sites.iter().filter(|s| s.ty == *ty) {
                    f.rows.push(ScriptRow {
                        key: Some(format!("i{}", s.k)),
                        tag: None,
                        ordinal: None,
                        out: s.out.clone(),
                    });
                }
                f
            })
            .collect()
    }
}

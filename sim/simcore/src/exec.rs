//! The simulated executor: it alone decides who is polled, when, with which
//! waker, when the virtual clock moves, and when an evaluation is abandoned.
//! Everything it decides comes from the scenario record.

use crate::spec::*;
use crate::summary::{outcomes_sum, res_sum, TaskResult};
use crate::world::{Ev, ProbeFn, ProbePanic, QEv, World, WorldStats};
use crate::xexpr::{to_expr, to_text};
use reval::prelude::*;
use serde::{Deserialize, Serialize};
use std::collections::{BTreeMap, HashMap};
use std::future::Future;
use std::panic::{catch_unwind, AssertUnwindSafe};
use std::pin::Pin;
use std::sync::atomic::{AtomicBool, AtomicU64, Ordering};
use std::sync::{Arc, Mutex, Once};
use std::task::{Context, Poll, Wake, Waker};

// ---------------------------------------------------------------- interning

pub fn intern(name: &str) -> &'static str {
    static TABLE: Mutex<Option<HashMap<String, &'static str>>> = Mutex::new(None);
    let mut g = TABLE.lock().unwrap_or_else(|e| e.into_inner());
    let t = g.get_or_insert_with(HashMap::new);
    if let Some(s) = t.get(name) {
        return s;
    }
    let s: &'static str = Box::leak(name.to_string().into_boxed_str());
    t.insert(name.to_string(), s);
    s
}

// ------------------------------------------------------------------- inputs

#[derive(Serialize)]
pub struct DerivedStruct {
    pub age: i64,
    pub name: String,
    pub tags: Vec<String>,
    pub nested: Option<DerivedInner>,
}
#[derive(Serialize)]
pub struct DerivedInner {
    pub n: i64,
    pub flag: bool,
}
#[derive(Serialize)]
pub enum DerivedEnum {
    Plain,
    Wrapped(i64),
    Pair(i64, bool),
    Rec { x: i64, y: String },
}

#[derive(Serialize)]
pub struct Chain {
    pub v: i64,
    pub next: Option<Box<Chain>>,
}

#[derive(Serialize)]
pub struct NewtypeIn(pub i64);
#[derive(Serialize)]
pub struct UnitIn;
#[derive(Serialize)]
pub struct TupleIn(pub i64, pub String);

/// Further shapes of the serde data model handed to `evaluate(&T)`.
pub enum TypedIn {
    I(i64),
    S(String),
    ONone(Option<i64>),
    OSome(Option<i64>),
    OStruct(Option<DerivedInner>),
    Tup((i64, bool)),
    Seq(Vec<i64>),
    Newtype(NewtypeIn),
    UnitS(UnitIn),
    Ch(char),
    B(bool),
    EmptyMap(BTreeMap<String, i64>),
    F(f64),
    TupS(TupleIn),
    SeqStruct(Vec<DerivedInner>),
}

/// A materialised input.
pub enum Input {
    Typed(TypedIn),
    Chain(Chain),
    Val(Value),
    Json(serde_json::Value),
    Struct(DerivedStruct),
    Enum(DerivedEnum),
    IntKeyMap(BTreeMap<i64, i64>),
    NestedBadKey(BTreeMap<String, BTreeMap<bool, i64>>),
    Unit,
    StrKeyMap(BTreeMap<String, i64>),
}

pub fn make_input(spec: &InputSpec) -> Result<Input, String> {
    Ok(match spec {
        InputSpec::Val(v) => Input::Val(v.to_value()),
        InputSpec::Json(t) => Input::Json(serde_json::from_str(t).map_err(|e| format!("bad json input: {e}"))?),
        InputSpec::Struct { age, name, tags, nested } => Input::Struct(DerivedStruct {
            age: *age,
            name: name.clone(),
            tags: tags.clone(),
            nested: nested.map(|(n, flag)| DerivedInner { n, flag }),
        }),
        InputSpec::Enum(k, n) => Input::Enum(match k % 4 {
            0 => DerivedEnum::Plain,
            1 => DerivedEnum::Wrapped(*n),
            2 => DerivedEnum::Pair(*n, n % 2 == 0),
            _ => DerivedEnum::Rec { x: *n, y: format!("y{n}") },
        }),
        InputSpec::IntKeyMap(m) => Input::IntKeyMap(m.iter().cloned().collect()),
        InputSpec::NestedBadKey(m) => Input::NestedBadKey(
            m.iter().map(|(k, v)| (k.clone(), v.iter().cloned().collect())).collect(),
        ),
        InputSpec::Unit => Input::Unit,
        InputSpec::StrKeyMap(m) => Input::StrKeyMap(m.iter().cloned().collect()),
        InputSpec::DeepVal { depth, leaf } => {
            let mut v = Value::Int(*leaf as i128);
            for _ in 0..*depth {
                v = Value::Vec(vec![v]);
            }
            Input::Val(v)
        }
        InputSpec::Typed(kind, n) => Input::Typed(match kind % 15 {
            0 => TypedIn::I(*n),
            1 => TypedIn::S(format!("s{n}")),
            2 => TypedIn::ONone(None),
            3 => TypedIn::OSome(Some(*n)),
            4 => TypedIn::OStruct(Some(DerivedInner { n: *n, flag: n % 2 == 0 })),
            5 => TypedIn::Tup((*n, n % 2 == 0)),
            6 => TypedIn::Seq(vec![*n, n + 1]),
            7 => TypedIn::Newtype(NewtypeIn(*n)),
            8 => TypedIn::UnitS(UnitIn),
            9 => TypedIn::Ch('x'),
            10 => TypedIn::B(n % 2 == 0),
            11 => TypedIn::EmptyMap(BTreeMap::new()),
            12 => TypedIn::F(*n as f64 + 0.5),
            13 => TypedIn::TupS(TupleIn(*n, "t".into())),
            _ => TypedIn::SeqStruct(vec![DerivedInner { n: *n, flag: true }, DerivedInner { n: n + 1, flag: false }]),
        }),
        InputSpec::DeepChain { depth } => {
            let mut c = Chain { v: 0, next: None };
            for i in 0..*depth {
                c = Chain { v: i as i64 + 1, next: Some(Box::new(c)) };
            }
            Input::Chain(c)
        }
    })
}

/// The harness's own classification: does serialising this input meet a map key that is not a string?
pub fn input_has_non_string_key(spec: &InputSpec) -> bool {
    match spec {
        InputSpec::IntKeyMap(m) => !m.is_empty(),
        InputSpec::NestedBadKey(m) => m.iter().any(|(_, inner)| !inner.is_empty()),
        _ => false,
    }
}

// ------------------------------------------------------------- the ruleset

pub struct Built {
    pub ruleset: Arc<RuleSet>,
    /// the harness's own copies of the rules handed to the builder
    pub rules: Arc<Vec<Rule>>,
    pub exprs: Arc<Vec<Expr>>,
}

pub fn rule_text(r: &RuleSpec) -> String {
    format!("// {}\n{}", r.name, to_text(&r.expr))
}

pub fn build_rule(r: &RuleSpec, text_build: bool) -> Result<Rule, String> {
    if text_build {
        Rule::parse(&rule_text(r)).map_err(|e| format!("Rule::parse refused harness text for {}: {e} :: {}", r.name, rule_text(r)))
    } else {
        Ok(Rule::new(r.name.clone(), BTreeMap::new(), to_expr(&r.expr)))
    }
}

pub fn build_ruleset(scn: &Scenario, world: &Arc<World>) -> Result<Built, String> {
    let mut rules = Vec::new();
    for r in &scn.rules {
        rules.push(build_rule(r, scn.text_build)?);
    }
    let mut b = ruleset();
    for r in &rules {
        b = b.with_rule(r.clone()).map_err(|e| format!("builder refused rule: {e}"))?;
    }
    for (i, f) in scn.functions.iter().enumerate() {
        b = b
            .with_function(ProbeFn {
                world: world.clone(),
                idx: i,
                name: intern(&f.name),
                cacheable: f.cacheable,
            })
            .map_err(|e| format!("builder refused function {}: {e}", f.name))?;
    }
    for (k, v) in &scn.symbols {
        b = b.with_symbol(k.clone(), v.to_value());
    }
    let exprs = rules.iter().map(|r| r.expr().clone()).collect();
    Ok(Built { ruleset: Arc::new(b.build()), rules: Arc::new(rules), exprs: Arc::new(exprs) })
}

/// The future of one evaluation. `Send` exactly when reval's futures are.
pub fn task_future(
    built: &Built,
    entry: Entry,
    input: Arc<Input>,
) -> impl Future<Output = TaskResult> + 'static {
    let rs = built.ruleset.clone();
    let rules = built.rules.clone();
    let exprs = built.exprs.clone();
    async move {
        match entry {
            Entry::ExprOnly(i) => {
                let facts = match &*input {
                    Input::Val(v) => v.clone(),
                    _ => Value::None,
                };
                let r = exprs[i].evaluate(&facts).await;
                TaskResult::Single(res_sum(&r))
            }
            Entry::RuleSet => match &*input {
                Input::Val(v) => outcomes_sum(&rs.evaluate_value(v).await, &rules),
                Input::Json(j) => outcomes_sum(&rs.evaluate(j).await, &rules),
                Input::Struct(s) => outcomes_sum(&rs.evaluate(s).await, &rules),
                Input::Enum(e) => outcomes_sum(&rs.evaluate(e).await, &rules),
                Input::IntKeyMap(m) => outcomes_sum(&rs.evaluate(m).await, &rules),
                Input::NestedBadKey(m) => outcomes_sum(&rs.evaluate(m).await, &rules),
                Input::Unit => outcomes_sum(&rs.evaluate(&()).await, &rules),
                Input::StrKeyMap(m) => outcomes_sum(&rs.evaluate(m).await, &rules),
                Input::Chain(ch) => outcomes_sum(&rs.evaluate(ch).await, &rules),
                Input::Typed(t) => match t {
                    TypedIn::I(x) => outcomes_sum(&rs.evaluate(x).await, &rules),
                    TypedIn::S(x) => outcomes_sum(&rs.evaluate(x).await, &rules),
                    TypedIn::ONone(x) | TypedIn::OSome(x) => outcomes_sum(&rs.evaluate(x).await, &rules),
                    TypedIn::OStruct(x) => outcomes_sum(&rs.evaluate(x).await, &rules),
                    TypedIn::Tup(x) => outcomes_sum(&rs.evaluate(x).await, &rules),
                    TypedIn::Seq(x) => outcomes_sum(&rs.evaluate(x).await, &rules),
                    TypedIn::Newtype(x) => outcomes_sum(&rs.evaluate(x).await, &rules),
                    TypedIn::UnitS(x) => outcomes_sum(&rs.evaluate(x).await, &rules),
                    TypedIn::Ch(x) => outcomes_sum(&rs.evaluate(x).await, &rules),
                    TypedIn::B(x) => outcomes_sum(&rs.evaluate(x).await, &rules),
                    TypedIn::EmptyMap(x) => outcomes_sum(&rs.evaluate(x).await, &rules),
                    TypedIn::F(x) => outcomes_sum(&rs.evaluate(x).await, &rules),
                    TypedIn::TupS(x) => outcomes_sum(&rs.evaluate(x).await, &rules),
                    TypedIn::SeqStruct(x) => outcomes_sum(&rs.evaluate(x).await, &rules),
                },
            },
        }
    }
}

// ------------------------------------------------------------------ wakers

pub struct WakeBoard {
    pub woken: Vec<AtomicBool>,
    pub epoch: Vec<AtomicU64>,
    pub fresh: bool,
    pub stale_wakes: AtomicU64,
}

pub struct TaskWaker {
    pub board: Arc<WakeBoard>,
    pub task: usize,
    pub epoch: u64,
}

impl Wake for TaskWaker {
    fn wake(self: Arc<Self>) {
        self.wake_by_ref()
    }
    fn wake_by_ref(self: &Arc<Self>) {
        if self.board.fresh && self.board.epoch[self.task].load(Ordering::SeqCst) != self.epoch {
            // a waker handed out by an earlier poll: dead under the fresh-waker regime
            self.board.stale_wakes.fetch_add(1, Ordering::SeqCst);
            return;
        }
        self.board.woken[self.task].store(true, Ordering::SeqCst);
    }
}

// --------------------------------------------------------------- panic hook

thread_local! {
    static LAST_PANIC: std::cell::RefCell<Option<String>> = const { std::cell::RefCell::new(None) };
}

pub fn install_panic_hook() {
    static ONCE: Once = Once::new();
    ONCE.call_once(|| {
        std::panic::set_hook(Box::new(|info| {
            if info.payload().downcast_ref::<ProbePanic>().is_some() {
                return; // injected fault, silent
            }
            let msg = if let Some(s) = info.payload().downcast_ref::<&str>() {
                s.to_string()
            } else if let Some(s) = info.payload().downcast_ref::<String>() {
                s.clone()
            } else {
                "<non-string panic payload>".to_string()
            };
            let loc = info.location().map(|l| format!("{}:{}", l.file(), l.line())).unwrap_or_default();
            LAST_PANIC.with(|p| *p.borrow_mut() = Some(format!("{msg} @ {loc}")));
        }));
    });
}

pub fn take_last_panic() -> Option<String> {
    LAST_PANIC.with(|p| p.borrow_mut().take())
}

// -------------------------------------------------------------------- hosts

pub enum PollOut {
    Pending,
    Ready(TaskResult),
    /// injected probe panic unwound through the evaluation
    ProbePanicked,
    /// a panic raised anywhere else
    ForeignPanic(String),
}

/// Where futures live and get polled: in this thread, or on a pool of OS threads.
pub trait Host {
    fn spawn(&mut self, task: usize, spec: &TaskSpec, input: Arc<Input>);
    fn poll(&mut self, task: usize, worker: usize, waker: &Waker) -> PollOut;
    fn drop_task(&mut self, task: usize);
}

pub struct LocalHost<'b> {
    pub built: &'b Built,
    pub futs: Vec<Option<Pin<Box<dyn Future<Output = TaskResult>>>>>,
}

impl<'b> LocalHost<'b> {
    pub fn new(built: &'b Built, n: usize) -> Self {
        LocalHost { built, futs: (0..n).map(|_| None).collect() }
    }
}

pub fn classify_panic(p: Box<dyn std::any::Any + Send>) -> PollOut {
    if p.downcast_ref::<ProbePanic>().is_some() {
        PollOut::ProbePanicked
    } else {
        let msg = take_last_panic().unwrap_or_else(|| "<panic>".into());
        PollOut::ForeignPanic(msg)
    }
}

impl<'b> Host for LocalHost<'b> {
    fn spawn(&mut self, task: usize, spec: &TaskSpec, input: Arc<Input>) {
        self.futs[task] = Some(Box::pin(task_future(self.built, spec.entry, input)));
    }
    fn poll(&mut self, task: usize, _worker: usize, waker: &Waker) -> PollOut {
        let fut = self.futs[task].as_mut().expect("polling a task without a future");
        let mut cx = Context::from_waker(waker);
        match catch_unwind(AssertUnwindSafe(|| fut.as_mut().poll(&mut cx))) {
            Ok(Poll::Pending) => PollOut::Pending,
            Ok(Poll::Ready(r)) => {
                self.futs[task] = None;
                PollOut::Ready(r)
            }
            Err(p) => {
                // the future is poisoned by the unwind; dropping it is all a caller can do
                let out = classify_panic(p);
                let f = self.futs[task].take();
                let _ = catch_unwind(AssertUnwindSafe(move || drop(f)));
                out
            }
        }
    }
    fn drop_task(&mut self, task: usize) {
        self.futs[task] = None;
    }
}

// ---------------------------------------------------------------- run output

#[derive(Clone, Debug, PartialEq, Serialize, Deserialize)]
pub enum TaskEnd {
    NotStarted,
    Finished(TaskResult),
    Cancelled { after_pendings: u32 },
    DeadlineHit,
    ProbePanicked,
    ForeignPanic(String),
    /// still pending when the run stopped
    Unfinished(String),
}

#[derive(Clone, Debug, Default, Serialize, Deserialize)]
pub struct TaskStat {
    pub polls: u32,
    pub pendings: u32,
    pub spurious: u32,
    pub workers_seen: Vec<usize>,
    pub migrations: u32,
}

#[derive(Clone, Debug, Default, Serialize, Deserialize)]
pub struct ExecStats {
    pub steps: u32,
    pub polls: u64,
    pub spurious_poll: u64,
    pub advances: u64,
    pub cancel_at_point: u64,
    pub deadline_cancel: u64,
    pub interleave_switch: u64,
    pub retry_after_abandon: u64,
    pub fresh_waker_polls: u64,
    pub stale_wakes: u64,
    pub worker_migration: u64,
    pub vtime_ns: u64,
}

pub struct RunOut {
    /// task polled at each poll, in order (the interleaving)
    pub poll_trace: Vec<u16>,
    pub log: Vec<Ev>,
    pub ends: Vec<TaskEnd>,
    pub tstats: Vec<TaskStat>,
    pub lost_wakeup: Option<usize>,
    pub budget_exhausted: bool,
    pub stats: ExecStats,
    pub wstats: WorldStats,
}

/// Drive a scenario on the given host. Pure function of (scenario, code under test).
pub fn drive<H: Host>(scn: &Scenario, world: &Arc<World>, host: &mut H, inputs: &[Arc<Input>]) -> RunOut {
    let n = scn.tasks.len();
    let board = Arc::new(WakeBoard {
        woken: (0..n).map(|_| AtomicBool::new(false)).collect(),
        epoch: (0..n).map(|_| AtomicU64::new(0)).collect(),
        fresh: scn.exec.fresh_waker,
        stale_wakes: AtomicU64::new(0),
    });
    let mut wakers: Vec<Waker> = (0..n)
        .map(|t| Waker::from(Arc::new(TaskWaker { board: board.clone(), task: t, epoch: 0 })))
        .collect();
    let mut ends: Vec<TaskEnd> = vec![TaskEnd::NotStarted; n];
    let mut live = vec![false; n];
    let mut unstarted: Vec<usize> = (0..n).collect();
    let mut started = vec![false; n];
    let mut tstats: Vec<TaskStat> = vec![TaskStat::default(); n];
    let mut last_worker: Vec<Option<usize>> = vec![None; n];
    let mut stats = ExecStats::default();
    let mut lost = None;
    let mut budget_exhausted = false;
    let mut last_polled: Option<usize> = None;
    let mut poll_trace: Vec<u16> = Vec::new();

    // cancellation points by task
    let mut cancel_after: Vec<Option<u32>> = vec![None; n];
    let mut deadline_after: Vec<Option<u64>> = vec![None; n];
    for f in &scn.faults {
        match *f {
            Fault::CancelAfterPending { task, k } if task < n => {
                cancel_after[task] = Some(cancel_after[task].map_or(k, |c| c.min(k)));
            }
            Fault::Deadline { task, after } if task < n => {
                deadline_after[task] = Some(deadline_after[task].map_or(after, |c| c.min(after)));
            }
            _ => {}
        }
    }

    let end_task = |t: usize, how: TaskEnd, ends: &mut Vec<TaskEnd>, live: &mut Vec<bool>, world: &Arc<World>| {
        let tag = match &how {
            TaskEnd::Finished(_) => "finished",
            TaskEnd::Cancelled { .. } => "cancelled",
            TaskEnd::DeadlineHit => "deadline",
            TaskEnd::ProbePanicked => "probe-panic",
            TaskEnd::ForeignPanic(_) => "foreign-panic",
            TaskEnd::Unfinished(_) => "unfinished",
            TaskEnd::NotStarted => "not-started",
        };
        world.log(Ev::End { task: t, how: tag.to_string() });
        ends[t] = how;
        live[t] = false;
    };

    let mut prio: Vec<u32> = (0..n).map(|t| scn.exec.priorities.get(t).copied().unwrap_or(0)).collect();
    let pct = !scn.exec.priorities.is_empty();
    let mut step: u32 = 0;
    loop {
        // ---- start whatever may start
        let mut started_any = false;
        let mut to_start: Vec<usize> = unstarted
            .iter()
            .copied()
            .filter(|&t| {
                !started[t]
                    && match scn.tasks[t].start {
                        Start::Now => true,
                        Start::AtStep(s) => step >= s,
                        Start::AfterEnd(o) => o < n && o != t && started[o] && !live[o],
                    }
            })
            .collect();
        if to_start.is_empty() && !live.iter().any(|l| *l) {
            // nothing alive: AtStep is only a preference
            if let Some(t) = unstarted.iter().copied().find(|&t| !started[t] && matches!(scn.tasks[t].start, Start::AtStep(_))) {
                to_start.push(t);
            }
        }
        if !to_start.is_empty() {
            unstarted.retain(|t| !to_start.contains(t));
        }
        for t in to_start {
            {
                started[t] = true;
                started_any = true;
                live[t] = true;
                world.log(Ev::Start { task: t });
                if let Start::AfterEnd(o) = scn.tasks[t].start {
                    if !matches!(ends[o], TaskEnd::Finished(_)) {
                        stats.retry_after_abandon += 1;
                    }
                }
                world.set_current(Some((t, scn.tasks[t].tag)));
                host.spawn(t, &scn.tasks[t], inputs[scn.tasks[t].input.min(inputs.len() - 1)].clone());
                world.set_current(None);
                board.woken[t].store(true, Ordering::SeqCst);
                if let Some(after) = deadline_after[t] {
                    world.schedule(after, QEv::Deadline(t));
                }
                if cancel_after[t] == Some(0) {
                    // abandoned before its first poll
                    world.set_current(Some((t, scn.tasks[t].tag)));
                    host.drop_task(t);
                    world.set_current(None);
                    stats.cancel_at_point += 1;
                    end_task(t, TaskEnd::Cancelled { after_pendings: 0 }, &mut ends, &mut live, world);
                }
            }
        }
        if started_any {
            continue; // re-evaluate AfterEnd chains
        }

        let live_ids: Vec<usize> = (0..n).filter(|t| live[*t]).collect();
        if live_ids.is_empty() {
            break; // nothing alive, nothing startable
        }
        if step >= scn.exec.max_steps {
            budget_exhausted = true;
            break;
        }
        let pick = scn.picks.get(step as usize).copied().unwrap_or(Pick { task: 0, spurious: false, advance: false });
        let woken: Vec<usize> = live_ids.iter().copied().filter(|t| board.woken[*t].load(Ordering::SeqCst)).collect();
        let qlen = world.queue_len();

        // ---- choose: advance the clock, or poll someone
        let pref = pick.task as usize;
        let mut to_poll: Option<(usize, bool)> = None; // (task, spurious)
        let mut do_advance = false;
        if pick.advance && qlen > 0 {
            do_advance = true;
        } else if pct && !woken.is_empty() {
            // highest priority among the woken tasks (ties: lowest id)
            let best = *woken.iter().max_by_key(|t| (prio[**t], std::cmp::Reverse(**t))).unwrap();
            to_poll = Some((best, false));
        } else if pref < n && live[pref] && (board.woken[pref].load(Ordering::SeqCst) || pick.spurious) {
            to_poll = Some((pref, !board.woken[pref].load(Ordering::SeqCst)));
        } else if !woken.is_empty() {
            to_poll = Some((woken[pref % woken.len()], false));
        } else if qlen > 0 {
            do_advance = true;
        } else if { let hung = world.hung_tasks(); !hung.is_empty() && live_ids.iter().all(|t| hung.contains(t)) } {
            // only evaluations parked in a call that never completes are left: the run is over
            break;
        } else if pick.spurious {
            to_poll = Some((live_ids[pref % live_ids.len()], true));
        } else {
            // live tasks, none woken, no event outstanding, no startable task: nobody will ever wake them.
            // Tasks parked in a call that never completes *by plan* are expected to sit there; any other
            // task in that position has lost its wake-up
            let hung = world.hung_tasks();
            if let Some(t) = live_ids.iter().copied().find(|t| !hung.contains(t)) {
                lost = Some(t);
            }
            break;
        }
        step += 1;
        stats.steps = step;

        if do_advance {
            stats.advances += 1;
            if let Some(QEv::Deadline(t)) = world.advance() {
                if live[t] {
                    world.set_current(Some((t, scn.tasks[t].tag)));
                    host.drop_task(t);
                    world.set_current(None);
                    stats.deadline_cancel += 1;
                    end_task(t, TaskEnd::DeadlineHit, &mut ends, &mut live, world);
                }
            }
            continue;
        }

        let (t, spurious) = to_poll.unwrap();
        if pct {
            for (at, newp) in &scn.exec.prio_changes {
                if *at == step - 1 {
                    prio[t] = *newp;
                }
            }
        }
        if let Some(lp) = last_polled {
            if lp != t && live[lp] {
                stats.interleave_switch += 1;
            }
        }
        last_polled = Some(t);
        if spurious {
            stats.spurious_poll += 1;
            tstats[t].spurious += 1;
        }
        if scn.exec.fresh_waker {
            let e = board.epoch[t].fetch_add(1, Ordering::SeqCst) + 1;
            wakers[t] = Waker::from(Arc::new(TaskWaker { board: board.clone(), task: t, epoch: e }));
            stats.fresh_waker_polls += 1;
        }
        board.woken[t].store(false, Ordering::SeqCst);
        let workers = scn.exec.workers.max(1) as usize;
        let worker = if workers > 1 {
            scn.exec.worker_picks.get(step as usize - 1).copied().unwrap_or(0) as usize % workers
        } else {
            0
        };
        if let Some(lw) = last_worker[t] {
            if lw != worker {
                stats.worker_migration += 1;
                tstats[t].migrations += 1;
            }
        }
        last_worker[t] = Some(worker);
        if !tstats[t].workers_seen.contains(&worker) {
            tstats[t].workers_seen.push(worker);
        }
        tstats[t].polls += 1;
        stats.polls += 1;
        poll_trace.push(t as u16);
        world.set_current(Some((t, scn.tasks[t].tag)));
        let out = host.poll(t, worker, &wakers[t]);
        world.set_current(None);
        match out {
            PollOut::Ready(r) => end_task(t, TaskEnd::Finished(r), &mut ends, &mut live, world),
            PollOut::ProbePanicked => end_task(t, TaskEnd::ProbePanicked, &mut ends, &mut live, world),
            PollOut::ForeignPanic(m) => end_task(t, TaskEnd::ForeignPanic(m), &mut ends, &mut live, world),
            PollOut::Pending => {
                tstats[t].pendings += 1;
                if cancel_after[t] == Some(tstats[t].pendings) {
                    world.set_current(Some((t, scn.tasks[t].tag)));
                    host.drop_task(t);
                    world.set_current(None);
                    stats.cancel_at_point += 1;
                    let k = tstats[t].pendings;
                    end_task(t, TaskEnd::Cancelled { after_pendings: k }, &mut ends, &mut live, world);
                }
            }
        }
    }

    // whatever is still alive is dropped now (the run is over)
    for t in 0..n {
        if live[t] {
            world.set_current(Some((t, scn.tasks[t].tag)));
            host.drop_task(t);
            world.set_current(None);
            let why = if world.hung_tasks().contains(&t) && lost != Some(t) {
                "hung by plan"
            } else if lost.is_some() {
                "lost wake-up"
            } else if budget_exhausted {
                "step budget exhausted"
            } else {
                "run ended"
            };
            end_task(t, TaskEnd::Unfinished(why.to_string()), &mut ends, &mut live, world);
        }
    }
    stats.stale_wakes = board.stale_wakes.load(Ordering::SeqCst);
    stats.vtime_ns = world.now();
    RunOut {
        poll_trace,
        log: world.take_log(),
        ends,
        tstats,
        lost_wakeup: lost,
        budget_exhausted,
        stats,
        wstats: world.stats(),
    }
}

/// Build the world and the ruleset of a scenario and run it on the local
/// single-thread host. `Err` = the harness could not even set the scenario up.
pub fn run(scn: &Scenario) -> Result<RunOut, String> {
    run_with(scn, None)
}

/// As `run`, optionally with already materialised inputs replacing the record's.
pub fn run_with(scn: &Scenario, override_inputs: Option<Vec<Arc<Input>>>) -> Result<RunOut, String> {
    install_panic_hook();
    if scn.inputs.is_empty() {
        return Err("scenario without inputs".into());
    }
    let world = World::new(scn.functions.clone(), &scn.behaviour);
    let built = build_ruleset(scn, &world)?;
    let mut inputs = Vec::new();
    match override_inputs {
        Some(v) => inputs = v,
        None => {
            for i in &scn.inputs {
                inputs.push(Arc::new(make_input(i)?));
            }
        }
    }
    let mut host = LocalHost::new(&built, scn.tasks.len());
    Ok(drive(scn, &world, &mut host, &inputs))
}

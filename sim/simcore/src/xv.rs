//! Harness-side values (`XV`: what a scenario record can spell) and the
//! harness's own canonical encoding of `reval::Value` (`canon`). Nothing here
//! uses reval's `Display`/`Debug`.

use chrono::{DateTime, TimeDelta, Utc};
use reval::value::Value;
use rust_decimal::Decimal;
use serde::{Deserialize, Serialize};
use std::collections::BTreeMap;

#[derive(Clone, Debug, PartialEq, Serialize, Deserialize)]
pub enum XV {
    N,
    B(bool),
    I(i64),
    F(f64),
    /// mantissa, scale
    D(i64, u32),
    S(String),
    /// datetime, seconds since epoch
    T(i64),
    /// duration, seconds
    U(i64),
    V(Vec<XV>),
    M(Vec<(String, XV)>),
}

impl XV {
    pub fn to_value(&self) -> Value {
        match self {
            XV::N => Value::None,
            XV::B(b) => Value::Bool(*b),
            XV::I(i) => Value::Int(*i as i128),
            XV::F(f) => Value::Float(*f),
            XV::D(m, s) => Value::Decimal(Decimal::new(*m, *s)),
            XV::S(s) => Value::String(s.clone()),
            XV::T(t) => Value::DateTime(
                DateTime::<Utc>::from_timestamp(*t, 0).expect("harness datetimes are in range"),
            ),
            XV::U(u) => Value::Duration(TimeDelta::seconds(*u)),
            XV::V(v) => Value::Vec(v.iter().map(XV::to_value).collect()),
            XV::M(m) => Value::Map(
                m.iter()
                    .map(|(k, v)| (k.clone(), v.to_value()))
                    .collect::<BTreeMap<_, _>>(),
            ),
        }
    }

    pub fn s(s: &str) -> XV {
        XV::S(s.to_string())
    }
}

fn esc(s: &str, out: &mut String) {
    out.push('"');
    for c in s.chars() {
        match c {
            '"' => out.push_str("\\\""),
            '\\' => out.push_str("\\\\"),
            '\n' => out.push_str("\\n"),
            c if (c as u32) < 0x20 => out.push_str(&format!("\\u{{{:x}}}", c as u32)),
            c => out.push(c),
        }
    }
    out.push('"');
}

fn canon_into(v: &Value, out: &mut String) {
    match v {
        Value::None => out.push('n'),
        Value::Bool(b) => out.push_str(if *b { "b1" } else { "b0" }),
        Value::Int(i) => {
            out.push('i');
            out.push_str(&i.to_string());
        }
        Value::Float(f) => {
            // bit exact, but readable when the value is a small integer-ish float
            out.push('f');
            out.push_str(&format!("{:016x}", f.to_bits()));
        }
        Value::Decimal(d) => {
            out.push('d');
            // the sign is kept even for zero (-0.0 and 0.0 are == but render differently)
            if d.is_sign_negative() && d.mantissa() == 0 {
                out.push('-');
            }
            out.push_str(&d.mantissa().to_string());
            out.push('e');
            out.push_str(&d.scale().to_string());
        }
        Value::String(s) => {
            out.push('s');
            esc(s, out);
        }
        Value::DateTime(t) => {
            out.push('t');
            out.push_str(&t.timestamp().to_string());
            out.push('.');
            out.push_str(&t.timestamp_subsec_nanos().to_string());
        }
        Value::Duration(u) => {
            out.push('u');
            out.push_str(&u.num_seconds().to_string());
            out.push('.');
            out.push_str(&u.subsec_nanos().to_string());
        }
        Value::Vec(items) => {
            out.push('[');
            for (i, it) in items.iter().enumerate() {
                if i > 0 {
                    out.push(',');
                }
                canon_into(it, out);
            }
            out.push(']');
        }
        Value::Map(m) => {
            out.push('{');
            for (i, (k, it)) in m.iter().enumerate() {
                if i > 0 {
                    out.push(',');
                }
                esc(k, out);
                out.push(':');
                canon_into(it, out);
            }
            out.push('}');
        }
        // a variant added to reval later: rendered through a tag only
        #[allow(unreachable_patterns)]
        _ => out.push_str("?unknown-variant"),
    }
}

/// A copy of the value in which everything that compares `==` has one representation:
/// -0.0 becomes 0.0 and decimals lose trailing zeros (d1.00 -> d1, -0.0 -> 0).
pub fn eq_normalised(v: &Value) -> Value {
    match v {
        Value::Float(f) if *f == 0.0 => Value::Float(0.0),
        Value::Decimal(d) => {
            let n = d.normalize();
            if n.is_zero() {
                Value::Decimal(Decimal::ZERO)
            } else {
                Value::Decimal(n)
            }
        }
        Value::Vec(items) => Value::Vec(items.iter().map(eq_normalised).collect()),
        Value::Map(m) => Value::Map(m.iter().map(|(k, x)| (k.clone(), eq_normalised(x))).collect()),
        other => other.clone(),
    }
}

/// Canonical rendering under which `==` values coincide (used where a script must not tell
/// equal-but-differently-represented arguments apart).
pub fn canon_eq(v: &Value) -> String {
    canon(&eq_normalised(v))
}

/// Canonical, injective rendering of a `Value` (bit-exact floats,
/// mantissa+scale decimals, escaped strings).
pub fn canon(v: &Value) -> String {
    let mut s = String::new();
    canon_into(v, &mut s);
    s
}

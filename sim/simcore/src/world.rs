//! The simulated world of one run: virtual clock, discrete-event queue, global
//! event log, and `ProbeFn` — the scripted user function that is reval's only
//! I/O. Everything a probe does is looked up in the scenario record.

use crate::rng::{combine, hash_str};
use crate::spec::{Beh, FnSpec, ScriptOut, Susp, Ty};
use crate::xv::canon;
use async_trait::async_trait;
use chrono::{DateTime, TimeDelta, Utc};
use reval::function::{FunctionResult, UserFunction};
use reval::value::Value;
use rust_decimal::Decimal;
use serde::{Deserialize, Serialize};
use std::collections::{BTreeMap, BinaryHeap, HashMap, VecDeque};
use std::cmp::Reverse;
use std::future::Future;
use std::pin::Pin;
use std::sync::{Arc, Mutex, MutexGuard};
use std::task::{Context, Poll, Waker};

#[derive(Clone, Debug, PartialEq, Serialize, Deserialize)]
pub enum Ev {
    Start { task: usize },
    End { task: usize, how: String },
    Invoke { task: usize, inv: u64, f: String, arg: String },
    Return { task: usize, inv: u64, ok: bool, val: String },
    Cancel { task: usize, inv: u64 },
    Panic { task: usize, inv: u64 },
    Suspend { task: usize, inv: u64, deferred: bool },
    Wake { inv: u64, delivered: bool },
}

#[derive(Clone, Debug, PartialEq, Eq, PartialOrd, Ord)]
pub enum QEv {
    Wake(u64),
    Deadline(usize),
}

/// Typed error a probe fails with; the oracles look for it by downcast.
#[derive(Debug)]
pub struct ProbeError {
    pub function: String,
    pub msg: String,
}
impl std::fmt::Display for ProbeError {
    fn fmt(&self, f: &mut std::fmt::Formatter<'_>) -> std::fmt::Result {
        write!(f, "{}", self.msg)
    }
}
impl std::error::Error for ProbeError {}

/// Panic payload of an injected `fn_panic`.
pub struct ProbePanic {
    pub inv: u64,
}

#[derive(Default, Clone, Debug)]
pub struct WorldStats {
    pub invocations: u64,
    pub fn_error: u64,
    pub fn_suspend_selfwake: u64,
    pub fn_suspend_deferred: u64,
    pub fn_panic: u64,
    pub cancelled_calls: u64,
    pub cancel_with_wake_outstanding: u64,
    pub wake_after_cancel: u64,
    pub spurious_call_polls: u64,
    pub fn_hang: u64,
}

pub struct Inner {
    pub now: u64,
    seq: u64,
    queue: BinaryHeap<Reverse<(u64, u64, QEv)>>,
    pub log: Vec<Ev>,
    /// (task instance, tag) being polled right now
    pub current: Option<(usize, u32)>,
    pub fns: Vec<FnSpec>,
    behaviour: HashMap<(usize, u32), Beh>,
    per_task_calls: HashMap<usize, u32>,
    per_task_fn_calls: HashMap<(usize, usize), u32>,
    ordinals: HashMap<(usize, usize, String), u32>,
    next_inv: u64,
    wakers: HashMap<u64, Waker>,
    fired: HashMap<u64, bool>,
    pub stats: WorldStats,
    /// tasks that are parked in a call that will never complete (by plan)
    pub hung_tasks: Vec<usize>,
}

pub struct World(Mutex<Inner>);

impl World {
    pub fn new(fns: Vec<FnSpec>, behaviour: &[Beh]) -> Arc<World> {
        let mut b = HashMap::new();
        for beh in behaviour {
            b.insert((beh.task, beh.call), beh.clone());
        }
        Arc::new(World(Mutex::new(Inner {
            now: 0,
            seq: 0,
            queue: BinaryHeap::new(),
            log: Vec::new(),
            current: None,
            fns,
            behaviour: b,
            per_task_calls: HashMap::new(),
            per_task_fn_calls: HashMap::new(),
            ordinals: HashMap::new(),
            next_inv: 0,
            wakers: HashMap::new(),
            fired: HashMap::new(),
            stats: WorldStats::default(),
            hung_tasks: Vec::new(),
        })))
    }

    pub fn lock(&self) -> MutexGuard<'_, Inner> {
        self.0.lock().unwrap_or_else(|e| e.into_inner())
    }

    pub fn set_behaviour(&self, behaviour: &[Beh]) {
        let mut w = self.lock();
        w.behaviour.clear();
        for beh in behaviour {
            w.behaviour.insert((beh.task, beh.call), beh.clone());
        }
    }

    pub fn set_current(&self, cur: Option<(usize, u32)>) {
        self.lock().current = cur;
    }

    pub fn log(&self, ev: Ev) {
        self.lock().log.push(ev);
    }

    pub fn now(&self) -> u64 {
        self.lock().now
    }

    pub fn schedule(&self, delay: u64, ev: QEv) {
        let mut w = self.lock();
        w.seq += 1;
        let at = w.now + delay;
        let seq = w.seq;
        w.queue.push(Reverse((at, seq, ev)));
    }

    pub fn queue_len(&self) -> usize {
        self.lock().queue.len()
    }

    /// Jump the clock to the next event and return it. A `Wake` is delivered
    /// here (the stored waker, if the call still exists, is fired outside the lock).
    pub fn advance(&self) -> Option<QEv> {
        let (ev, waker) = {
            let mut w = self.lock();
            let Reverse((at, _, ev)) = w.queue.pop()?;
            if at > w.now {
                w.now = at;
            }
            let mut waker = None;
            if let QEv::Wake(inv) = ev {
                match w.wakers.remove(&inv) {
                    Some(wk) => {
                        w.fired.insert(inv, true);
                        w.log.push(Ev::Wake { inv, delivered: true });
                        waker = Some(wk);
                    }
                    None => {
                        w.stats.wake_after_cancel += 1;
                        w.log.push(Ev::Wake { inv, delivered: false });
                    }
                }
            }
            (ev, waker)
        };
        if let Some(wk) = waker {
            wk.wake();
        }
        Some(ev)
    }

    pub fn take_log(&self) -> Vec<Ev> {
        std::mem::take(&mut self.lock().log)
    }

    pub fn hung_tasks(&self) -> Vec<usize> {
        self.lock().hung_tasks.clone()
    }

    pub fn stats(&self) -> WorldStats {
        self.lock().stats.clone()
    }
}

/// Order-sensitive hash of an event log (for determinism checks).
pub fn log_hash(log: &[Ev]) -> u64 {
    let mut h = 0u64;
    for ev in log {
        let e = match ev {
            Ev::Start { task } => combine(1, *task as u64),
            Ev::End { task, how } => combine(combine(2, *task as u64), hash_str(how)),
            Ev::Invoke { task, inv, f, arg } => combine(combine(combine(3, *task as u64), *inv), combine(hash_str(f), hash_str(arg))),
            Ev::Return { task, inv, ok, val } => combine(combine(combine(4, *task as u64), *inv), combine(*ok as u64, hash_str(val))),
            Ev::Cancel { task, inv } => combine(combine(5, *task as u64), *inv),
            Ev::Panic { task, inv } => combine(combine(6, *task as u64), *inv),
            Ev::Suspend { task, inv, deferred } => combine(combine(7, *task as u64), combine(*inv, *deferred as u64)),
            Ev::Wake { inv, delivered } => combine(combine(8, *inv), *delivered as u64),
        };
        h = combine(h, e);
    }
    h
}

pub fn typed_value(ty: Ty, h: u64) -> Value {
    match ty {
        Ty::Bool => Value::Bool(h & 1 == 1),
        Ty::Int => Value::Int((h % 10) as i128),
        Ty::Float => Value::Float((h % 8) as f64 * 0.5),
        Ty::Dec => Value::Decimal(Decimal::new((h % 40) as i64, 1)),
        Ty::Str => Value::String(format!("s{}", h % 1000)),
        Ty::DateTime => Value::DateTime(
            DateTime::<Utc>::from_timestamp(1_600_000_000 + (h % 1_000_000) as i64, 0).unwrap(),
        ),
        Ty::Duration => Value::Duration(TimeDelta::seconds((h % 100_000) as i64)),
        Ty::Vec => Value::Vec(vec![
            Value::Int((h % 5) as i128),
            Value::Int(((h / 5) % 5) as i128),
        ]),
        Ty::Map => {
            let mut m = BTreeMap::new();
            m.insert("a".to_string(), Value::Int((h % 5) as i128));
            m.insert("b".to_string(), Value::Bool(h & 2 == 2));
            Value::Map(m)
        }
        Ty::NoneT => Value::None,
    }
}

/// The scripted result of invocation (`f`, `arg`) number `ordinal` of evaluation `tag`.
pub fn resolve(spec: &FnSpec, key: &str, arg: &Value, tag: u32, ordinal: u32) -> Result<Value, String> {
    // scripted values must not tell `==` arguments apart (0.0 / -0.0, d1.0 / d1.00): whether such
    // arguments are "the same" for caching purposes is a don't-care zone of the properties
    let mut h = combine(spec.salt, combine(hash_str(&spec.name), hash_str(&crate::xv::canon_eq(arg))));
    if spec.mix_tag {
        h = combine(h, 0x7461_6700 + tag as u64);
    }
    if spec.mix_ordinal {
        h = combine(h, 0x6f72_6400 + ordinal as u64);
    }
    let mut out = None;
    for row in &spec.rows {
        if row.key.as_deref().map_or(true, |k| k == key)
            && row.tag.map_or(true, |t| t == tag)
            && row.ordinal.map_or(true, |o| o == ordinal)
        {
            out = Some(&row.out);
            break;
        }
    }
    let out = match out {
        Some(o) => o,
        None => {
            if spec.fail_mod != 0 && combine(h, 0xfa11) % spec.fail_mod as u64 == 0 {
                return Err(format!("scripted failure of {}({})", spec.name, key));
            }
            &spec.default
        }
    };
    match out {
        ScriptOut::Ok(v) => Ok(v.to_value()),
        ScriptOut::Echo => Ok(arg.clone()),
        ScriptOut::Nth(n) => Ok(match arg {
            Value::Vec(items) => items.get(*n).cloned().unwrap_or(Value::None),
            _ => Value::None,
        }),
        ScriptOut::Unique => {
            let t = if spec.mix_tag { tag.to_string() } else { "-".into() };
            let o = if spec.mix_ordinal { ordinal.to_string() } else { "-".into() };
            Ok(Value::String(format!("{}#{}.{}({})", spec.name, t, o, key)))
        }
        ScriptOut::Typed(ty) => Ok(typed_value(*ty, h)),
        ScriptOut::Fail(m) => Err(m.clone()),
    }
}

/// A scripted user function.
pub struct ProbeFn {
    pub world: Arc<World>,
    pub idx: usize,
    pub name: &'static str,
    pub cacheable: bool,
}

#[async_trait]
impl UserFunction for ProbeFn {
    async fn call(&self, params: Value) -> FunctionResult {
        ProbeCall {
            world: self.world.clone(),
            f: self.idx,
            arg: params,
            st: CallState::Fresh,
        }
        .await
    }

    fn name(&self) -> &'static str {
        self.name
    }

    fn cacheable(&self) -> bool {
        // possibly dynamic: cacheable only for the first n invocations of the current evaluation
        let w = self.world.lock();
        match w.fns.get(self.idx).and_then(|f| f.cacheable_first) {
            Some(n) => {
                let task = w.current.map(|c| c.0).unwrap_or(usize::MAX);
                w.per_task_fn_calls.get(&(task, self.idx)).copied().unwrap_or(0) < n
            }
            None => self.cacheable,
        }
    }
}

enum CallState {
    Fresh,
    Running {
        inv: u64,
        task: usize,
        susp: VecDeque<Susp>,
        waiting: bool,
        panic: bool,
        result: Option<Result<Value, String>>,
    },
    Done,
}

pub struct ProbeCall {
    world: Arc<World>,
    f: usize,
    arg: Value,
    st: CallState,
}

impl Future for ProbeCall {
    type Output = FunctionResult;

    fn poll(mut self: Pin<&mut Self>, cx: &mut Context<'_>) -> Poll<FunctionResult> {
        let this = &mut *self;
        if let CallState::Fresh = this.st {
            let mut w = this.world.lock();
            let (task, tag) = w.current.unwrap_or((usize::MAX, u32::MAX));
            let key = canon(&this.arg);
            let call = {
                let c = w.per_task_calls.entry(task).or_insert(0);
                let v = *c;
                *c += 1;
                v
            };
            let ordinal = {
                let o = w.ordinals.entry((task, this.f, key.clone())).or_insert(0);
                let v = *o;
                *o += 1;
                v
            };
            *w.per_task_fn_calls.entry((task, this.f)).or_insert(0) += 1;
            let inv = w.next_inv;
            w.next_inv += 1;
            w.stats.invocations += 1;
            let spec = &w.fns[this.f];
            let result = resolve(spec, &key, &this.arg, tag, ordinal);
            let name = spec.name.clone();
            w.log.push(Ev::Invoke { task, inv, f: name, arg: key });
            let (susp, panic) = match w.behaviour.get(&(task, call)) {
                Some(b) => (b.susp.iter().copied().collect(), b.panic),
                None => (VecDeque::new(), false),
            };
            this.st = CallState::Running { inv, task, susp, waiting: false, panic, result: Some(result) };
        }
        let world = this.world.clone();
        match &mut this.st {
            CallState::Running { inv, task, susp, waiting, panic, result } => {
                let mut w = world.lock();
                if *waiting {
                    if w.fired.remove(inv).is_some() {
                        *waiting = false;
                    } else {
                        // polled without our wake having fired: keep the newest waker
                        w.stats.spurious_call_polls += 1;
                        w.wakers.insert(*inv, cx.waker().clone());
                        return Poll::Pending;
                    }
                }
                if let Some(s) = susp.pop_front() {
                    match s {
                        Susp::SelfWake => {
                            w.stats.fn_suspend_selfwake += 1;
                            w.log.push(Ev::Suspend { task: *task, inv: *inv, deferred: false });
                            drop(w);
                            cx.waker().wake_by_ref();
                            return Poll::Pending;
                        }
                        Susp::Forever => {
                            w.stats.fn_hang += 1;
                            w.log.push(Ev::Suspend { task: *task, inv: *inv, deferred: true });
                            w.wakers.insert(*inv, cx.waker().clone());
                            let t = *task;
                            if !w.hung_tasks.contains(&t) {
                                w.hung_tasks.push(t);
                            }
                            // stay hung on every later poll as well
                            susp.push_front(Susp::Forever);
                            return Poll::Pending;
                        }
                        Susp::Deferred(d) => {
                            w.stats.fn_suspend_deferred += 1;
                            w.log.push(Ev::Suspend { task: *task, inv: *inv, deferred: true });
                            w.wakers.insert(*inv, cx.waker().clone());
                            w.seq += 1;
                            let at = w.now + d;
                            let seq = w.seq;
                            w.queue.push(Reverse((at, seq, QEv::Wake(*inv))));
                            *waiting = true;
                            return Poll::Pending;
                        }
                    }
                }
                if *panic {
                    w.stats.fn_panic += 1;
                    let (t, i) = (*task, *inv);
                    w.log.push(Ev::Panic { task: t, inv: i });
                    drop(w);
                    this.st = CallState::Done;
                    std::panic::panic_any(ProbePanic { inv: i });
                }
                let res = result.take().expect("polled after completion");
                let (t, i) = (*task, *inv);
                let out = match res {
                    Ok(v) => {
                        w.log.push(Ev::Return { task: t, inv: i, ok: true, val: canon(&v) });
                        Ok(v)
                    }
                    Err(m) => {
                        w.stats.fn_error += 1;
                        w.log.push(Ev::Return { task: t, inv: i, ok: false, val: m.clone() });
                        let function = w.fns[this.f].name.clone();
                        let base = anyhow::Error::new(ProbeError { function, msg: m });
                        Err(match w.fns[this.f].fail_style {
                            1 => anyhow::Error::new(reval::Error::UserFunctionError { function: "inner_fn".to_string(), error: base }),
                            2 => base.context("while probing"),
                            _ => base,
                        })
                    }
                };
                drop(w);
                this.st = CallState::Done;
                Poll::Ready(out)
            }
            CallState::Done => panic!("ProbeCall polled after completion"),
            CallState::Fresh => unreachable!(),
        }
    }
}

impl Drop for ProbeCall {
    fn drop(&mut self) {
        if let CallState::Running { inv, task, waiting, .. } = &self.st {
            let mut w = self.world.lock();
            w.stats.cancelled_calls += 1;
            if *waiting && w.wakers.remove(inv).is_some() {
                w.stats.cancel_with_wake_outstanding += 1;
            }
            w.fired.remove(inv);
            w.log.push(Ev::Cancel { task: *task, inv: *inv });
        }
    }
}

#!/bin/bash
# tools_mutant.sh <patch.diff> [--notests] <ID>...   : apply a patch to /repo, (optionally) run the
# repository's own tests, run the given checks (quick tier, VERIF_RUNS honoured), revert.
export VERIF_EVIDENCE_DIR=/verif/target/mutant_evidence; mkdir -p $VERIF_EVIDENCE_DIR
P="$1"; shift
TESTS=1; if [ "$1" = "--notests" ]; then TESTS=0; shift; fi
cd /repo || exit 2
if [ -n "$(git status --porcelain)" ]; then echo "repo not clean"; exit 2; fi
git apply "$P" || { echo "patch does not apply"; exit 2; }
trap 'cd /repo && git checkout -- . && git clean -fdq src tests' EXIT
if [ $TESTS = 1 ]; then
  if cargo test --workspace --no-fail-fast --offline > /tmp/mutant_tests.log 2>&1; then echo "  repo tests: PASS"; else echo "  repo tests: FAIL"; grep -E "^test .* FAILED|error" /tmp/mutant_tests.log | head -5; fi
fi
for id in "$@"; do
  /verif/check $id > /tmp/mutant_check_$id.log 2>&1; rc=$?
  echo "  $id: exit=$rc $(grep -m1 -E '^clause:' /tmp/mutant_check_$id.log) $(grep -m1 -oE 'minimised after [0-9]+' /tmp/mutant_check_$id.log)"
done

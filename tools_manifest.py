#!/usr/bin/env python3
"""Regenerates MANIFEST.json from the table below and validates it against the schema."""
import json, sys
NA_COMMON = "pure function of its input: no schedule, clock, fault, interleaving or history for a simulator to control; seeded input generation alone would be a different technique"
NA = {
 "C01": "panic-freedom / no silent overflow of evaluation is a universal over operator x operand values; no user function, suspension or fault is involved in any failing case, so the simulated executor and fault plan contribute nothing. " + NA_COMMON,
 "C02": "operator table conformance is pure value semantics of the node kinds; needs an independent operator table, not a scheduler. " + NA_COMMON,
 "C03": "no implicit coercion: pure function of the operand type pair. " + NA_COMMON,
 "C04": "none propagation: pure function of operator and operand values. " + NA_COMMON,
 "C06": "parser totality: &str -> Result, synchronous and stateless. " + NA_COMMON,
 "C07": "precedence/associativity: equality of two parsers on token sequences; there is no execution to schedule. " + NA_COMMON,
 "C08": "literal denotation and layout insensitivity: pure lexing/parsing. " + NA_COMMON,
 "C10": "name and path resolution: pure lookup in immutable data (the symbol-table part that has a history, 'most recently registered', is covered under C15). " + NA_COMMON,
 "C13": "serializer fidelity: pure function of the serde value; a failing Serialize is an input, not a fault at a nondeterministic instant. " + NA_COMMON,
 "C14": "rule metadata extraction: pure function of the rule text. " + NA_COMMON,
 "C16": "print/parse round trip: pure function of the tree. " + NA_COMMON,
 "C17": "Value conversions: pure functions of the value. " + NA_COMMON,
 "C19": "stack exhaustion on deep nesting: a universal over input size observed through process exit status; the stack limit is a fixed configuration, not an injected fault, and simulated runs are deliberately small. " + NA_COMMON,
}
CHECKS = json.load(open("/verif/tools_checks.json"))
m = {
 "version": 1,
 "setup_cmd": "cd /verif/sim && CARGO_NET_OFFLINE=true cargo build --release --offline --workspace",
 "hooks": {
   "guard": "reval_verif (reserved; unused)",
   "enable": "no hook is needed: every seam (Future polling, UserFunction trait, Serialize, Builder) is public API; checks build /repo unmodified through a path dependency",
   "baseline_off_cmd": "cd /repo && cargo test --workspace --no-fail-fast --offline",
   "source_commits": [],
   "add_only": True,
 },
 "engines": [
   {"name": "sim", "path": "/verif/sim", "serves_properties": [c["property_id"] for c in CHECKS],
    "kind_free_text": "hand-written deterministic simulator (Rust): seeded scheduler over a simulated executor, virtual clock and discrete-event queue, scripted user functions with fault plan, scenario records as data, delta-debugging shrinker, replay"}
 ],
 "checks": CHECKS,
 "notes": "Technique family: deterministic simulation with fault injection. See DESIGN.md. Exit 2 from a check is a harness error, never a verdict.",
 "not_applicable": [{"property_id": k, "reason": v} for k, v in sorted(NA.items()) if k not in {c["property_id"] for c in CHECKS}],
}
json.dump(m, open("/verif/MANIFEST.json", "w"), indent=1)
try:
    import jsonschema
    jsonschema.validate(m, json.load(open("/root/.vp/MANIFEST.schema.json")))
    print("MANIFEST.json valid;", len(CHECKS), "checks,", len(m["not_applicable"]), "not applicable")
except ImportError:
    print("jsonschema not available; written unvalidated")

#!/bin/bash
# selftest.sh determinism | mutants [pattern]
#   determinism: every property, the same seeds executed repeatedly in separate processes at 1, 4 and
#                16 concurrent slice processes, for several VERIF_SEED values; the per-run event-log hashes
#                (order-independent sum) and the verdict digest must be identical.
#   mutants:     every patch under mutants/ and seeded/*/patch.diff is applied to /repo (reverted
#                afterwards), must compile, must pass the repository's own tests, and the quick tier of
#                the properties listed for it in mutants/EXPECT.tsv must report it / stay silent.
set -u
cd "$(dirname "$0")"
export VERIF_DIR="$PWD"
export VERIF_EVIDENCE_DIR="$PWD/target/mutant_evidence"; mkdir -p "$VERIF_EVIDENCE_DIR"
# SELFTEST_SCRATCH=1: work on a scratch clone of /repo (built through cargo's `paths` override) so that /repo stays untouched
REPO=/repo
if [ "${SELFTEST_SCRATCH:-0}" = 1 ]; then
  SCR=$(mktemp -d /tmp/selftest_repo.XXXXXX); git clone -q /repo "$SCR/reval"; REPO="$SCR/reval"; export VERIF_REPO_OVERRIDE="$REPO"; trap 'rm -rf "$SCR"' EXIT
fi
export CARGO_NET_OFFLINE=true
MODE="${1:-}"; shift || true
mkdir -p target; ( cd sim && cargo build --release --offline --workspace ) > target/build.log 2>&1 || { echo "build failed"; tail target/build.log; exit 2; }
case "$MODE" in
determinism)
  RUNS="${SELFTEST_RUNS:-6400}"
  FAIL=0
  SD="$PWD/target/selftest"; rm -rf $SD; mkdir -p $SD
  for P in C05 C09 C11 C12 C15 C18; do
    BIN=./target/release/sim; [ $P = C18 ] && BIN=./target/release/sim18
    for SEED in 1 2 77; do
      REF=""
      for JOBS in 1 4 16 16; do
        OUT=$(VERIF_EVIDENCE_DIR=$SD/evidence VERIF_DIR=$SD VERIF_SEED=$SEED VERIF_RUNS=$RUNS VERIF_JOBS=$JOBS $BIN check $P quick 2>&1 | tail -1)
        D=$(echo "$OUT" | grep -oE 'digest=[0-9a-f]+')
        E=$(python3 -c "import json;print(json.load(open('$SD/evidence/$P.json'))['coverage']['counters']['digest.events'])")
        K="$D events=$E"
        if [ -z "$REF" ]; then REF="$K"; fi
        if [ "$K" != "$REF" ]; then echo "NONDETERMINISM $P seed=$SEED jobs=$JOBS: $K vs $REF"; FAIL=1; fi
      done
      echo "$P seed=$SEED runs=$RUNS x4 executions (jobs 1,4,16,16): $REF"
    done
  done
  rm -rf $SD
  [ $FAIL = 0 ] && echo "determinism: OK" || { echo "determinism: FAILED"; exit 1; }
  ;;
mutants)
  PAT="${1:-}"
  printf "%-44s %-6s" "mutant" "tests"; for P in C05 C09 C11 C12 C15 C18; do printf " %-4s" $P; done; echo
  BAD=0
  while IFS=$'\t' read -r NAME EXPECT; do
    [ -z "$NAME" ] && continue; [[ "$NAME" == \#* ]] && continue
    [ -n "$PAT" ] && [[ "$NAME" != *$PAT* ]] && continue
    PATCH=mutants/$NAME.diff; [ -f "$PATCH" ] || PATCH=seeded/$NAME/patch.diff
    [ -f "$PATCH" ] || { echo "$NAME: patch missing"; BAD=1; continue; }
    if [ -n "$(git -C $REPO status --porcelain)" ]; then echo "$REPO not clean"; exit 2; fi
    git -C $REPO apply "$PWD/$PATCH" || { echo "$NAME: does not apply"; BAD=1; continue; }
    T="PASS"
    if [ "${SELFTEST_NOTESTS:-0}" = 1 ]; then T="-"; else ( cd $REPO && cargo test --workspace --no-fail-fast --offline ) > target/mutant_tests.log 2>&1 || T="FAIL"; fi
    printf "%-44s %-6s" "$NAME" "$T"
    for P in C05 C09 C11 C12 C15 C18; do
      # SELFTEST_ONLY=<ID>: run only that check (the others print "-")
      if [ -n "${SELFTEST_ONLY:-}" ] && [ "$P" != "$SELFTEST_ONLY" ]; then printf " %-4s" "-"; continue; fi
      E=$(echo "$EXPECT" | grep -oE "$P=[a-z]" | cut -d= -f2); E=${E:-s}   # y = must report, s = must stay silent, o = may report
      VERIF_RUNS="${SELFTEST_MUTANT_RUNS:-}" ; 
      if [ -n "${SELFTEST_MUTANT_RUNS:-}" ]; then VERIF_RUNS=$SELFTEST_MUTANT_RUNS ./check $P > target/mutant_$P.log 2>&1; else ./check $P > target/mutant_$P.log 2>&1; fi
      RC=$?
      MARK="."; [ $RC = 1 ] && MARK="X"; [ $RC = 2 ] && MARK="2"
      OKAY=1
      [ $E = y ] && [ $RC != 1 ] && OKAY=0
      [ $E = s ] && [ $RC = 1 ] && OKAY=0
      [ $OKAY = 0 ] && { MARK="$MARK!"; BAD=1; }
      printf " %-4s" "$MARK"
    done
    echo
    git -C $REPO checkout -- . ; git -C $REPO clean -fdq src tests
  done < mutants/EXPECT.tsv
  [ $BAD = 0 ] && echo "mutants: every expectation met (X = reported, . = silent, 2 = harness error, ! = unexpected)" || { echo "mutants: expectations NOT met"; exit 1; }
  ;;
miri)
  # the one mutant only Miri's race detector can see: unsafe impl Sync over a Cell touched by every evaluation
  git -C $REPO apply "$PWD/mutants/c18_unsafe_sync_cell_counter.diff" || exit 2
  ( cd sim/c18_miri && MIRIFLAGS="-Zmiri-many-seeds=0..16 -Zmiri-preemption-rate=0.1" cargo +nightly miri run --offline ${VERIF_REPO_OVERRIDE:+--config "paths=[\"$VERIF_REPO_OVERRIDE\"]"} ) > target/selftest_miri.log 2>&1
  RC=$?
  git -C $REPO checkout -- .
  if [ $RC != 0 ] && grep -q "Data race detected" target/selftest_miri.log; then echo "miri: data race reported for c18_unsafe_sync_cell_counter (expected)"; else echo "miri: mutant NOT reported"; exit 1; fi
  ;;
*) echo "usage: selftest.sh determinism | mutants [name-pattern] | miri"; exit 2;;
esac

#!/bin/bash
# tools_seeded.sh <ID> <n> [checks...] : validate a sub-agent's seeded change in its scratch worktree
# (suite passes with it, demo fails with it, demo passes without it), then run our checks against it.
ID="$1"; N="$2"; shift 2
PFX="${SEED_PREFIX:-seed}"; W=/tmp/${PFX}_$ID; O=/tmp/${PFX}_$ID.out/$N
cd $W || exit 2
export RUST_BACKTRACE=0
git checkout -q -- . ; git clean -fdq src tests
[ -f $O/patch.diff ] || { echo "no patch"; exit 2; }
reg() { cp $O/seeded_demo.rs tests/seeded_demo.rs; cat $O/cargo_toml_addition.txt >> Cargo.toml; }
# without the patch: demo passes
reg; cargo test --offline --test seeded_demo > /tmp/seeded_$ID.$N.clean.log 2>&1; A=$?
git checkout -q -- . ; git clean -fdq src tests
git apply $O/patch.diff || { echo "patch does not apply"; exit 2; }
cargo test --workspace --no-fail-fast --offline > /tmp/seeded_$ID.$N.suite.log 2>&1; B=$?
reg; cargo test --offline --test seeded_demo > /tmp/seeded_$ID.$N.patched.log 2>&1; C=$?
git checkout -q -- . ; git clean -fdq src tests
echo "$ID/$N: demo-on-clean rc=$A (want 0), suite-with-patch rc=$B (want 0), demo-with-patch rc=$C (want !=0)"
grep -E "^test result" /tmp/seeded_$ID.$N.suite.log | tr '\n' ' '; echo
if [ $A = 0 ] && [ $B = 0 ] && [ $C != 0 ]; then echo "  CONFIRMED"; else echo "  NOT CONFIRMED"; exit 1; fi
if [ $# -gt 0 ]; then /verif/tools_mutant.sh $O/patch.diff --notests "$@"; fi

#!/bin/bash
# runs every thorough tier once against a scratch clone of /repo's HEAD (unchanged tree); prints one summary line each
cd "$(dirname "$0")"; mkdir -p target
for P in C05 C15 C09 C11 C18 C12; do
  S=$(date +%s)
  ./tools_scratch_check.sh - $P thorough > target/thorough_$P.log 2>&1; RC=$?
  E=$(( $(date +%s) - S ))
  echo "$P thorough: exit=$RC wall=${E}s :: $(tail -1 target/thorough_$P.log | cut -c1-200)"
  grep -E "VIOLATION|HARNESS|warning" target/thorough_$P.log | head -5
done

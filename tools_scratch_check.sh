#!/bin/bash
# tools_scratch_check.sh <patch|-> <ID> <tier> [VAR=val ...] : run a check against a scratch clone of /repo
# (optionally patched), leaving /repo untouched. Evidence goes to target/mutant_evidence.
PATCH="$1"; ID="$2"; TIER="$3"; shift 3
cd "$(dirname "$0")"
SCR=$(mktemp -d /tmp/scratch_repo.XXXXXX); trap 'rm -rf "$SCR"' EXIT
git clone -q /repo "$SCR/reval"
[ "$PATCH" != "-" ] && { git -C "$SCR/reval" apply "$PATCH" || exit 2; }
export VERIF_REPO_OVERRIDE="$SCR/reval" VERIF_EVIDENCE_DIR="$PWD/target/mutant_evidence"
mkdir -p "$VERIF_EVIDENCE_DIR"
env "$@" ./check "$ID" --tier "$TIER"

#!/bin/bash
# C18: (1) the type-level half — 17 auto-trait obligations compiled against /repo;
#      (2) the dynamic half — the C12 workload on a lock-step pool of real OS threads;
#      (3) thorough tier only — Miri's seeded scheduler + race detector on a multi-threaded evaluation.
set -u
cd "$(dirname "$0")"
TIER="${1:-quick}"; REPLAY="${2:-}"
export VERIF_DIR="${VERIF_DIR:-$PWD}"
CARGO_CFG=(); [ -n "${VERIF_REPO_OVERRIDE:-}" ] && CARGO_CFG=(--config "paths=[\"$VERIF_REPO_OVERRIDE\"]")
SEED="${VERIF_SEED:-1}"
EVDIR="${VERIF_EVIDENCE_DIR:-$VERIF_DIR/evidence}"
export EVDIR
mkdir -p target replays/C18 "$EVDIR"
T0=$(date +%s.%N)
write_static_violation_evidence() {
python3 - "$1" "$TIER" "$SEED" "$T0" <<'PY'
import json,sys,time
log,tier,seed,t0=sys.argv[1],sys.argv[2],int(sys.argv[3]),float(sys.argv[4])
lines=[l for l in open(log,errors='replace').read().splitlines() if l.startswith('error') or '-->' in l][:12]
ev={"property_id":"C18","tier":tier,"seed":seed,"level":"exploration","wall_s":time.time()-t0,"violations":1,
 "coverage":{"evaluations":17,"distinct_nontrivial":17,"rule":"17 auto-trait obligations (Send/Sync of RuleSet, Rule, Expr, Index, Value, Symbols, Error; Send of the futures of Expr::evaluate, RuleSet::evaluate_value, RuleSet::evaluate::<T: Sync>) compiled by rustc; the dynamic half did not run because the type-level half failed",
 "samples":lines or ["compiler log: "+log],"static_obligations":17,"static_obligations_holding":"not all","compiler_log":log},
 "assumptions":["rustc decides the auto-trait obligations"]}
import os
json.dump(ev,open(os.environ['EVDIR']+'/C18.json','w'),indent=1)
PY
}
is_autotrait_failure() {
  # an auto-trait error raised while compiling the obligations (not reval itself failing to build)
  grep -q 'could not compile `reval`' "$1" && return 1
  grep -qE 'error\[E0277\]|error: future cannot be sent between threads safely' "$1" && grep -qE 'cannot be (sent|shared) between threads|`(Send|Sync)`' "$1"
}
static_half() {
  ( cd sim && touch c18_static/src/lib.rs && cargo build --release --offline -p c18_static "${CARGO_CFG[@]}" ) > target/c18_static.log 2>&1
}
if [ -n "$REPLAY" ] && [[ "$REPLAY" == *.log ]]; then
  # a compiler-log "replay": re-run the compile-time obligations
  if static_half; then echo "replay: the 17 auto-trait obligations hold on this tree"; exit 0; fi
  if is_autotrait_failure target/c18_static.log; then grep -m3 -A6 'error\[E0277\]' target/c18_static.log; echo "VIOLATION property=C18 replay=$REPLAY"; exit 1; fi
  echo "HARNESS-ERROR: c18_static does not build for another reason" >&2; tail -20 target/c18_static.log >&2; exit 2
fi
if ! static_half; then
  if is_autotrait_failure target/c18_static.log; then
    R="replays/C18/static-$SEED.log"; cp target/c18_static.log "$R"
    grep -m3 -A8 'error\[E0277\]' target/c18_static.log
    write_static_violation_evidence "$VERIF_DIR/$R"
    echo "clause: auto-trait-obligation-fails"
    echo "VIOLATION property=C18 replay=$VERIF_DIR/$R"
    exit 1
  fi
  echo "HARNESS-ERROR: c18_static does not build (not an auto-trait error)" >&2; tail -20 target/c18_static.log >&2; exit 2
fi
( cd sim && cargo build --release --offline -p sim18 "${CARGO_CFG[@]}" ) > target/build18.log 2>&1 || {
  if is_autotrait_failure target/build18.log; then
    R="replays/C18/static-pool-$SEED.log"; cp target/build18.log "$R"
    grep -m3 -A8 'error\[E0277\]' target/build18.log
    write_static_violation_evidence "$VERIF_DIR/$R"
    echo "clause: auto-trait-obligation-fails (worker pool cannot hold the evaluation future)"
    echo "VIOLATION property=C18 replay=$VERIF_DIR/$R"
    exit 1
  fi
  echo "HARNESS-ERROR: sim18 does not build against /repo" >&2; tail -30 target/build18.log >&2; exit 2; }
if [ -n "$REPLAY" ]; then exec ./target/release/sim18 replay "$REPLAY"; fi
./target/release/sim18 check C18 "$TIER"; RC=$?
[ $RC -eq 2 ] && exit 2
MIRI_NOTE=""; MIRI_SEEDS=0; MIRI_RC=0
# Miri's seeded scheduler + race detector on a small multi-threaded evaluation: 16 seeds on every run,
# 64 in the thorough tier (real overlap of two polls is the one thing the lock-step pool cannot produce)
if [ $RC -eq 1 ]; then
  MIRI_NOTE="not run: the lock-step half already reported a violation"
elif [ "${VERIF_MIRI:-1}" != "0" ]; then
  if [ "$TIER" = "thorough" ]; then NSEEDS="${VERIF_MIRI_SEEDS:-64}"; else NSEEDS="${VERIF_MIRI_SEEDS:-16}"; fi
  # in batches of 8 seeds (many more interpreters at once oversubscribe the machine: 16 at once take
  # six times as long as two batches of 8); each batch is bounded, so that an evaluation which spins or
  # blocks under Miri's scheduler cannot hang the check
  : > target/c18_miri.log
  MIRI_RC=0; FROM=0
  while [ $FROM -lt $NSEEDS ]; do
    TO=$((FROM + 8)); [ $TO -gt $NSEEDS ] && TO=$NSEEDS
    ( cd sim/c18_miri && MIRIFLAGS="-Zmiri-many-seeds=$FROM..$TO -Zmiri-preemption-rate=0.1" timeout -k 10 "${VERIF_MIRI_TIMEOUT:-600}" cargo +nightly miri run --offline "${CARGO_CFG[@]}" ) >> target/c18_miri.log 2>&1
    MIRI_RC=$?
    [ $MIRI_RC -eq 124 ] && echo "miri run of seeds $FROM..$TO timed out after ${VERIF_MIRI_TIMEOUT:-600}s" >> target/c18_miri.log
    [ $MIRI_RC -ne 0 ] && break
    FROM=$TO
  done
  MIRI_SEEDS=$NSEEDS
  if [ $MIRI_RC -ne 0 ]; then
    if grep -qE 'Data race detected|Undefined Behavior|differ' target/c18_miri.log; then
      R="replays/C18/miri-$SEED.log"; cp target/c18_miri.log "$R"
      grep -m2 -B2 -A12 -E 'Data race detected|Undefined Behavior|differ' target/c18_miri.log | head -40
      echo "clause: data-race-or-divergence-under-miri"
      echo "VIOLATION property=C18 replay=$VERIF_DIR/$R"
      MIRI_NOTE="FAILED: see $R"; RC=1
    else
      # Miri itself could not run here (toolchain, sysroot): not a verdict about reval; the other two
      # parts of the check stand, and the evidence says that this part did not run
      echo "warning: the Miri part of C18 could not run in this environment (see target/c18_miri.log); skipped" >&2
      MIRI_NOTE="could not run in this environment: $(tail -1 target/c18_miri.log | cut -c1-160)"; MIRI_SEEDS=0
    fi
  else
    MIRI_NOTE="$NSEEDS seeds of Miri's scheduler (preemption rate 0.1), race detector on: 3 threads x one shared Arc<RuleSet> (concurrent evaluation, abandonment, completion on another thread, first concurrent use of a fresh ruleset) + 3 threads x one shared Arc<Expr>; no data race, outcomes equal the sequential ones"
  fi
else
  MIRI_NOTE="switched off by VERIF_MIRI=0"
fi
python3 - "$TIER" "$MIRI_NOTE" "$MIRI_SEEDS" "$T0" "$RC" <<'PY'
import json,sys,time
tier,note,seeds,t0,rc=sys.argv[1],sys.argv[2],int(sys.argv[3]),float(sys.argv[4]),int(sys.argv[5])
import os
p=os.environ['EVDIR']+'/C18.json'
ev=json.load(open(p))
ev['coverage']['static_obligations']=17
ev['coverage']['static_obligations_holding']=17
ev['coverage']['static_half']="crate sim/c18_static (assert Send+Sync for RuleSet, Rule, Expr, Index, Value, Symbols, Error; assert Send for the futures of Expr::evaluate, RuleSet::evaluate_value and RuleSet::evaluate::<T: Serialize + Sync>) compiled against /repo's working tree by this run"
ev['coverage']['miri']=note
ev['coverage']['miri_seeds']=seeds
ev['wall_s']=time.time()-t0
if rc==1 and ev.get('violations',0)==0: ev['violations']=1
json.dump(ev,open(p,'w'),indent=1)
PY
exit $RC

#!/bin/bash
cd "$(dirname "$0")"; mkdir -p target
for P in C05 C15 C18 C12 C11; do
  S=$(date +%s)
  VERIF_SEED=3 ./tools_scratch_check.sh - $P thorough > target/thorough3_$P.log 2>&1; RC=$?
  echo "$P thorough seed 3: exit=$RC wall=$(( $(date +%s) - S ))s :: $(tail -1 target/thorough3_$P.log | cut -c1-200)"
  grep -E "VIOLATION|HARNESS" target/thorough3_$P.log | head -3
done
